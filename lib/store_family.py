"""C03: request-grain interleavings of open / write / commit / merge-on-open.

Store.tla is model-checked by TLC (every interleaving of 3 clients at LIST / GET / PUT / DELETE grain within the
bounds); its behaviours are schedules (sequences of client ids) that the harness imposes on the real code through the
fake store's gate: each client runs on its own goroutine and proceeds one root-level request at a time when the
schedule says so.  Longer programs get seeded random schedules.  Monitor.tla checks on the recorded trace that every
completed open contains every version acknowledged before that open began, that every view is explained by whole
versions (rows = Ideal of the loaded versions' statements), and that a final quiescent open contains every
acknowledged commit.
"""
import json
import os
import random
import time

import vf


def cfg_text(maxver, maxfacts, maxopens, view=True, emit=True):
    return ('CONSTANTS\n  Clients = {"a", "b", "r"}\n  ReadOnly = {"r"}\n  MaxVer = %d\n  MaxFacts = %d\n  MaxOpens = %d\n'
            '  Lookup <- LookupCurMrg\n  CommitOrder = "put_first"\n  WithCrash = FALSE\nSPECIFICATION Spec\n%s'
            "INVARIANTS TypeOK C03_OpenSeesAcked C03_NothingLost%s\nPROPERTY C04_FactsNeverDisappear\nCHECK_DEADLOCK FALSE\n"
            % (maxver, maxfacts, maxopens, "VIEW View\n" if view else "", " Emit" if emit else ""))


def scenario_from(beh, idx, rng, tag):
    """beh: list of {c, a}."""
    progs = {}
    sched = []
    nfact = [0]
    for st in beh:
        c, a = st["c"], st["a"]
        p = progs.setdefault(c, [])
        if a == "open":
            p.append({"op": "open", "c": c, "mode": "ro" if c == "r" else "rw", "perm": rng.randrange(6)})
            sched += [c, c]
        elif a == "write":
            nfact[0] += 1
            p.append({"op": "stmt", "c": c, "id": "s%d" % nfact[0], "kind": "ins", "key": "i:%d" % nfact[0],
                      "cols": {"a": "t:f%d" % nfact[0]}, "wt": nfact[0]})
            sched.append(c)
        elif a == "close":
            p.append({"op": "close", "c": c})
            sched.append(c)
        elif a == "req":
            sched.append(c)
    return mk(progs, sched, idx, rng, tag)


def mk(progs, sched, idx, rng, tag):
    after = [{"op": "open", "c": "z1", "mode": "ro", "perm": rng.randrange(6), "tag": "final"},
             {"op": "open", "c": "z2", "mode": "rw", "perm": rng.randrange(6), "tag": "final"},
             {"op": "open", "c": "z3", "mode": "ro", "perm": rng.randrange(6), "tag": "final"}, {"op": "bucket"}]
    return {"id": "%s-%d" % (tag, idx), "kind": "sched", "features": [],
            "cfg": {"cols": ["a", "b"], "epn": rng.choice([0, 2]), "cache": 0, "log_nodes": 0, "log_reads": 1, "after": after},
            "clients": progs, "schedule": sched}


def random_scenario(idx, rng):
    """Longer programs than the model's bounds, random schedule."""
    nclients = rng.choice([2, 3, 4])
    progs = {}
    nfact = 0
    for i in range(nclients):
        c = "c%d" % i
        ro = rng.random() < 0.25 and i > 0
        p = [{"op": "open", "c": c, "mode": "ro" if ro else "rw", "perm": rng.randrange(6)}]
        for _ in range(rng.randrange(1, 5)):
            r = rng.random()
            if r < 0.55 and not ro:
                nfact += 1
                p.append({"op": "stmt", "c": c, "id": "s%d" % nfact, "kind": "ins", "key": "i:%d" % nfact,
                          "cols": {"a": "t:f%d" % nfact}, "wt": nfact})
            elif r < 0.8:
                p.append({"op": "refresh", "c": c, "perm": rng.randrange(6)})
            else:
                p.append({"op": "open", "c": c, "mode": "ro" if ro else "rw", "perm": rng.randrange(6)})
        progs[c] = p
    sched = [rng.choice(list(progs)) for _ in range(rng.randrange(10, 60))]
    return mk(progs, sched, idx, rng, "rnd")


def run(prop, tier):
    t0 = time.time()
    rng = random.Random(vf.seed() * 15485863 + 3)
    workdir = vf.fresh_workdir(prop, tier)
    binary = vf.build_harness()
    notes = []
    states = trans = 0
    behs = []
    seen = set()

    def add(b, cap):
        got = []
        for x in b:
            k = json.dumps(x, sort_keys=True)
            if k not in seen:
                seen.add(k)
                got.append(x)
        rng.shuffle(got)
        behs.extend(got[:cap])

    if tier == "quick":
        b, d, g, w = vf.gen_behaviours(workdir, "Store", cfg_text(3, 2, 4), name="gen_small", timeout=1200)
        notes.append("Store 3 clients (2 writers + 1 read-only), <=3 versions, 2 facts, <=4 opens, exhaustive (one schedule per distinct final state): %d behaviours, %d distinct states, %.0fs" % (len(b), d, w))
    else:
        b, d, g, w = vf.gen_behaviours(workdir, "Store", cfg_text(4, 3, 5), name="gen_small", timeout=3000, workers=12)
        notes.append("Store 3 clients, <=4 versions, 3 facts, <=5 opens, exhaustive: %d behaviours, %d distinct states, %.0fs" % (len(b), d, w))
    states += d
    trans += g
    add(b, 400 if tier == "quick" else 6000)
    b, d, g, w = vf.gen_behaviours(workdir, "Store", cfg_text(5, 4, 6, view=False), name="gen_sim",
                                   simulate=(100 if tier == "quick" else 1500), depth=70)
    notes.append("Store <=5 versions, 4 facts, <=6 opens -simulate: %d behaviours, %.0fs" % (len(b), w))
    states += d
    trans += g
    add(b, 400 if tier == "quick" else 6000)
    scen = [scenario_from(x, i, rng, "st") for i, x in enumerate(behs)]
    nrnd = 400 if tier == "quick" else 8000
    scen += [random_scenario(i, rng) for i in range(nrnd)]
    notes.append("%d seeded random schedules over random programs of 2-4 clients" % nrnd)
    vf.log("; ".join(notes))
    traces, info = vf.run_harness(binary, scen, workdir)
    vf.log("executed %d scenarios in %.1fs (crashes=%d hangs=%d)" % (len(scen), info["wall"], info["crashes"], info["hangs"]))
    viols, events, mstates, mwall = vf.run_monitor(workdir, traces, [prop])
    vf.log("monitor: %d events validated in %.1fs, %d raw violations" % (events, mwall, len(viols)))
    by_id = {s["id"]: s for s in scen}
    sample = scen[0]
    coverage = {
        "states": states, "transitions": trans, "traces_validated_against_impl": len(scen), "trace_events_validated": events,
        "samples": [{"scenario": sample["id"], "clients": sample["clients"], "schedule": sample["schedule"]}],
        "evaluations": len(scen),
        "distinct_nontrivial": len({json.dumps([s["clients"], s["schedule"]], sort_keys=True) for s in scen if len(s["clients"]) >= 2}),
        "rule": "one execution per distinct TLC schedule of Store.tla plus seeded random schedules; non-trivial = distinct (programs, schedule) pairs with >= 2 clients",
        "generator_runs": notes, "harness": info, "exhaustive": False,
    }
    assumptions = [
        "fake object store with strong read-after-write and list-after-write consistency (what S3 provides today)",
        "the schedule is imposed at the grain of root-level requests (LIST, GET/PUT/DELETE of version objects); node objects are immutable and their requests are not interleaving points",
    ]
    evs = vf.load_trace(traces)
    return vf.finish(prop, tier, workdir, by_id, evs, viols, "model_checking", coverage, t0, assumptions)
