"""C19: independent connections can be used from different threads.

Thread schedules cannot be enumerated or imposed in Go; this check is exploration: m in {2,4,8} connections, each on its
own goroutine with its own SQLite connection and s3db table (same prefix or different prefixes), run seeded random
statement streams (INSERT/UPDATE/DELETE with their own write times, transactions, refresh, s3db_version, vacuum, s3db_conn
deadline/write_time set / read back / cleared) concurrently, in a harness built with the race detector
(GORACE=halt_on_error: a reported race kills the process and is recorded).  Monitor.tla judges the recorded execution with
the sequential specification: every view must be Ideal of the whole versions it merged (serial equivalence per table),
s3db_conn must read back each connection's own values (no cross-talk), the final merged table must contain every
acknowledged statement, and there must be no race report, panic or hang.
"""
import json
import os
import random
import time

import vf


def stream(cid, idx, rng, same_prefix, nsteps):
    keys = ["i:%d" % (idx * 100 + j) for j in range(4)]
    if same_prefix and rng.random() < 0.5:
        keys += ["i:9001", "i:9002"]          # contended keys; write times are distinct per client
    steps = [{"op": "open", "c": cid, "mode": "rw"}]
    wt = idx + 1
    nst = 0
    intx = False
    live = set()
    for _ in range(nsteps):
        r = rng.random()
        wt += 16
        if r < 0.45:
            nst += 1
            k = rng.choice(keys)
            kind = rng.choice(["ins", "upd", "del"]) if k in live else "ins"
            cols = {} if kind == "del" else {c: "t:%s_%s_%d" % (c, cid, wt) for c in rng.sample(["a", "b"], rng.choice([1, 2]))}
            steps.append({"op": "stmt", "c": cid, "id": "%s_%d" % (cid, nst), "kind": kind, "key": k, "cols": cols, "wt": wt, "intx": 1 if intx else 0})
            if kind == "ins":
                live.add(k)
            elif kind == "del":
                live.discard(k)
        elif r < 0.55 and not intx:
            steps.append({"op": "refresh", "c": cid, "perm": rng.randrange(6)})
            live = set()   # unknown after a refresh; statements on non-visible rows are no-ops, which is fine
        elif r < 0.62:
            steps.append({"op": "rows", "c": cid})
        elif r < 0.70 and not intx:
            steps.append({"op": "begin", "c": cid})
            intx = True
        elif r < 0.78 and intx:
            steps.append({"op": rng.choice(["commit", "commit", "rollback"]), "c": cid})
            intx = False
        elif r < 0.86:
            t = 5000 + idx * 10 + rng.randrange(5)
            steps += [{"op": "conn_set", "c": cid, "attr": "deadline", "t": 90000 + idx}, {"op": "conn_get", "c": cid},
                      {"op": "conn_set", "c": cid, "attr": "deadline"}, {"op": "conn_get", "c": cid}]
        elif r < 0.92 and not intx:
            steps.append({"op": "version", "c": cid})
        elif not intx and not same_prefix:
            steps.append({"op": "vacuum", "c": cid, "cutoff": 50})
    if intx:
        steps.append({"op": "commit", "c": cid})
    steps += [{"op": "conn_get", "c": cid}, {"op": "rows", "c": cid}, {"op": "refresh", "c": cid}, {"op": "rows", "c": cid}]
    return steps


def run(prop, tier):
    t0 = time.time()
    rng = random.Random(vf.seed() * 961748941 + 19)
    workdir = vf.fresh_workdir(prop, tier)
    binary = vf.build_harness(race=True)
    os.environ["GORACE"] = "halt_on_error=1 exitcode=66"
    scen = []
    n = 40 if tier == "quick" else 600
    for i in range(n):
        m = rng.choice([2, 4, 8])
        same = rng.random() < 0.6
        clients = {}
        for j in range(m):
            cid = "t%d" % j
            clients[cid] = stream(cid, j, rng, same, rng.randrange(6, 16))
        after = [{"op": "open", "c": "z1", "mode": "rw", "perm": rng.randrange(6), "tag": "final"},
                 {"op": "open", "c": "z2", "mode": "ro", "perm": rng.randrange(6), "tag": "final"}]
        feats = ["same_prefix" if same else "different_prefixes"]
        epn = rng.choice([0, 0, 2, 4])
        if 0 < epn <= 4:
            feats.append("small_epn")
        if any(st["op"] == "rollback" for c in clients.values() for st in c):
            feats.append("rollback_or_failed_commit")
        scen.append({"id": "c19-%d" % i, "kind": "threads", "features": sorted(feats),
                     "cfg": {"cols": ["a", "b"], "epn": epn, "cache": rng.choice([0, 8]), "log_nodes": 0, "log_reads": 0,
                             "same_prefix": 1 if same else 0, "after": after},
                     "clients": clients})
    # tables without s3_bucket: the process-wide, lazily created in-memory bucket (open.go) - each scenario in a fresh
    # process so that the first in-memory opens of the process overlap; requests are proxied and logged
    nmem = 12 if tier == "quick" else 150
    for i in range(nmem):
        m = rng.choice([2, 3, 4])
        same = rng.random() < 0.5
        clients = {}
        for j in range(m):
            cid = "t%d" % j
            clients[cid] = [st for st in stream(cid, j, rng, True, rng.randrange(4, 10)) if st["op"] != "vacuum"]
        after = [{"op": "open", "c": "z1", "mode": "rw", "tag": "final"}, {"op": "open", "c": "z2", "mode": "ro", "tag": "final"}]
        scen.append({"id": "c19-mem-%d" % i, "kind": "threads", "features": ["in_memory", "same_prefix" if same else "different_prefixes"],
                     "cfg": {"cols": ["a", "b"], "epn": 0, "cache": 0, "log_nodes": 0, "log_reads": 0, "inmem": 1, "fresh_process": 1,
                             "same_prefix": 1 if same else 0, "after": after},
                     "clients": clients})
    # imposed schedules at request grain (sched.go, the schedules of Store.tla's grain): every connection stops before each
    # API call and before each root-level storage request; the scheduler lets ONE connection run at a time while the others
    # stay parked wherever they are - in particular in the middle of the storage I/O of an open, a commit or a refresh. A
    # connection that cannot finish its step alone (it waits for something a parked connection holds) is a deadlock under
    # that schedule: the harness reports `hang` after 30 s, the monitor reports C19_NoPanicNoHang. The Go scheduler almost
    # never produces these overlaps with an in-memory store, so they are imposed.
    from store_family import random_scenario
    nsched = 40 if tier == "quick" else 600
    for i in range(nsched):
        sc = random_scenario(i, rng)
        sc["id"] = "c19-sched-%d" % i
        sc["features"] = ["imposed_schedule"]
        # begin with every connection parked inside its first step (open) in turn, then the random schedule
        ids = sorted(sc["clients"])
        rng.shuffle(ids)
        sc["schedule"] = [c for c in ids for _ in range(rng.choice([1, 2, 3]))] + sc["schedule"]
        scen.append(sc)
    vf.log("%d concurrent scenarios (2/4/8 goroutines; %d on the process-wide in-memory bucket, fresh process each) + %d imposed request-grain schedules, race detector on" % (len(scen) - nsched, nmem, nsched))
    traces, info = vf.run_harness(binary, scen, workdir, shards=4)
    vf.log("executed %d scenarios in %.1fs (crashes=%d hangs=%d)" % (len(scen), info["wall"], info["crashes"], info["hangs"]))
    viols, events, mstates, mwall = vf.run_monitor(workdir, traces, [prop])
    vf.log("monitor: %d events validated in %.1fs, %d raw violations" % (events, mwall, len(viols)))
    by_id = {s["id"]: s for s in scen}
    sample = scen[0]
    coverage = {
        "evaluations": len(scen),
        "distinct_nontrivial": len({json.dumps([s["clients"], s.get("schedule")], sort_keys=True) for s in scen if len(s["clients"]) >= 2}),
        "rule": "seeded random statement streams on 2/4/8 goroutines (same prefix 60%, different prefixes 40%), executed once each under the race detector; distinct = distinct stream sets with >= 2 connections. Thread schedules of those are whatever the Go scheduler produced (not enumerated); in addition " + str(nsched) + " random programs of 2-4 connections run under imposed request-grain schedules (one connection runs at a time, the others parked inside their storage requests).",
        "imposed_schedules": nsched,
        "samples": [{"scenario": sample["id"], "cfg": {k: v for k, v in sample["cfg"].items() if k != "after"}, "client_t0": sample["clients"]["t0"][:8]}],
        "traces_validated_against_impl": len(scen), "trace_events_validated": events, "states": mstates, "transitions": mstates,
        "race_detector": True, "harness": info, "exhaustive": False,
    }
    assumptions = ["data-race freedom is decided by the Go race detector on the executions that happened, not by TLC",
                   "the fake store is thread-safe; AWS_CA_BUNDLE is unset (the AWS SDK itself races on it)"]
    evs = vf.load_trace(traces)
    if info["crashes"]:
        races = [e for e in evs if e.get("ev") == "panic" and "DATA RACE" in e.get("msg", "")]
        vf.log("%d process deaths, %d with a race report" % (info["crashes"], len(races)))
    return vf.finish(prop, tier, workdir, by_id, evs, viols, "exploration", coverage, t0, assumptions)
