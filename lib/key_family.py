"""C07: key order is total, matches SQLite, and equal keys are one key.

KeyOrder.tla defines the abstract key domain (numeric positions tagged INTEGER / REAL with twins, TEXT, BLOB), SQLite's
order on it (TLC checks totality, antisymmetry, transitivity, twins) and generates every ordered pair.  The harness
(a) calls Key.Order on every pair of concrete boundary keys (and records native SQLite's comparison of the same values);
(b) for every pair inserts a then b into an s3db table and a native WITHOUT ROWID table at several tree depths, looks
both up, scans in both directions.  Monitor.tla compares the recorded comparisons with the specification's Cmp, checks
antisymmetry and transitivity ON THE RECORDED relation, and requires equal outcomes / results on both tables.
"""
import json
import os
import random
import struct
import time

import vf


def r(x):
    return "r:%016x" % struct.unpack(">Q", struct.pack(">d", x))[0]


P53 = 2 ** 53
# numeric line in true order: (integer literal or None, [real literals]); position = index (by construction)
_NUM = [
    (None, [r(float("-inf"))]),
    (None, [r(-1e308)]),
    ("i:-9223372036854775808", [r(-9223372036854775808.0)]),
    ("i:-9223372036854775807", []),
    ("i:%d" % -(2 ** 60), [r(-float(2 ** 60))]),
    ("i:%d" % -(P53 + 1), []),
    ("i:%d" % -P53, [r(-float(P53))]),
    (None, [r(-1.5)]),
    ("i:-1", [r(-1.0)]),
    (None, [r(-5e-324)]),
    ("i:0", [r(0.0), r(-0.0)]),
    (None, [r(5e-324)]),
    (None, [r(0.5)]),
    ("i:1", [r(1.0)]),
    (None, [r(1.0000000000000002)]),
    ("i:%d" % P53, [r(float(P53))]),
    ("i:%d" % (P53 + 1), []),
    ("i:%d" % (P53 + 2), [r(float(P53 + 2))]),
    ("i:%d" % (P53 + 4), [r(float(P53 + 4))]),
    ("i:%d" % (2 ** 60), [r(float(2 ** 60))]),
    ("i:1700000000000000000", [r(1.7e18)]),
    ("i:9223372036854775806", []),
    ("i:9223372036854775807", []),
    (None, [r(9223372036854775808.0)]),
    (None, [r(1e308)]),
    (None, [r(float("inf"))]),
]
NUM = dict(enumerate(_NUM))
TEXT = ["t:", "t:a", "t:a\u0001", "t:aa", "t:ab", "t:b", "t:\u00e9", "t:\u4e2d"]
BLOB = ["x:", "x:00", "x:0000", "x:61", "x:ff"]


def cfg_text():
    ip = sorted(p for p, (i, rs) in NUM.items() if i)
    rp = sorted(p for p, (i, rs) in NUM.items() if rs)
    return ("CONSTANTS\n  IntPos = {%s}\n  RealPos = {%s}\n  NText = %d\n  NBlob = %d\nSPECIFICATION Spec\nINVARIANT Emit\nCHECK_DEADLOCK FALSE\n"
            % (", ".join(map(str, ip)), ", ".join(map(str, rp)), len(TEXT), len(BLOB)))


def lits(k, rng=None, all_=False):
    """concrete literal(s) of an abstract key"""
    if k["cls"] == "text":
        return [TEXT[k["pos"] - 1]]
    if k["cls"] == "blob":
        return [BLOB[k["pos"] - 1]]
    i, rs = NUM[k["pos"]]
    if k["tag"] == "int":
        return [i]
    return rs if all_ else [rng.choice(rs)]


def run(prop, tier):
    t0 = time.time()
    rng = random.Random(vf.seed() * 67867967 + 7)
    workdir = vf.fresh_workdir(prop, tier)
    binary = vf.build_harness()
    pairs, d, g, w = vf.gen_behaviours(workdir, "KeyOrder", cfg_text(), name="gen_pairs", workers=4)
    notes = ["KeyOrder: %d abstract keys, every ordered pair: %d behaviours, %d states, %.0fs (Cmp total/antisymmetric/transitive/twins checked by TLC as ASSUMEs)"
             % (len({json.dumps(p["a"], sort_keys=True) for p in pairs}), len(pairs), d, w)]
    # (a) direct comparisons: every pair, every concrete representative
    cmps = []
    for p in pairs:
        for la in lits(p["a"], all_=True):
            for lb in lits(p["b"], all_=True):
                cmps.append({"op": "cmp", "a": la, "b": lb, "ak": p["a"], "bk": p["b"]})
    scen = [{"id": "c07-order", "kind": "order", "features": [], "cfg": {"cols": ["a"]}, "steps": cmps + [{"op": "order_done"}]}]
    # (b) SQL: insert a then b at several depths, on s3db and on a native table
    sel = list(pairs)
    rng.shuffle(sel)
    if tier == "quick":
        # every pair of twins / same-position keys and every cross-class or adjacent pair, plus a sample of the rest
        important = [p for p in pairs if p["cmp"] == 0 or abs(p["a"]["pos"] - p["b"]["pos"]) <= 1 or p["a"]["cls"] != p["b"]["cls"]]
        rng.shuffle(important)
        sel = important[:450] + sel[:150]
    nsql = 0
    for j, p in enumerate(sel):
        la, lb = lits(p["a"], rng)[0], lits(p["b"], rng)[0]
        depths = [0, 6, 40] if tier == "thorough" else [rng.choice([0, 6, 40])]
        if tier != "thorough" and p["cmp"] == 0 and la != lb:
            # numerically equal keys of different representation hash to different tree layers: multi-level trees
            depths = [6, 40]
        for dp in depths:
            epn = rng.choice([2, 3]) if dp else rng.choice([2, 4096, 0])
            steps = [{"op": "open", "c": "w", "mode": "rw", "shadow": 1}]
            if dp:
                steps.append({"op": "sql", "c": "w", "kind": "exec", "q": "begin", "args": []})
                for i in range(dp):
                    steps.append({"op": "sql", "c": "w", "kind": "exec", "q": "insert into {T} (k, a) values (?, ?)", "args": ["t:zz%03d" % i if i % 2 else "i:%d" % (1000 + 7 * i), "i:%d" % i]})
                steps.append({"op": "sql", "c": "w", "kind": "exec", "q": "commit", "args": []})
            steps += [
                {"op": "sql", "c": "w", "kind": "exec", "q": "insert into {T} (k, a) values (?, 'first')", "args": [la]},
                {"op": "sql", "c": "w", "kind": "exec", "q": "insert into {T} (k, a) values (?, 'second')", "args": [lb]},
                {"op": "sql", "c": "w", "kind": "query", "q": "select k, a, typeof(k) from {T} order by k", "args": [], "ordered": 1},
                {"op": "sql", "c": "w", "kind": "query", "q": "select k, a from {T} order by k desc", "args": [], "ordered": 1},
                {"op": "sql", "c": "w", "kind": "query", "q": "select count(*), min(a), max(a) from {T} where k = ?", "args": [la], "ordered": 1},
                {"op": "sql", "c": "w", "kind": "query", "q": "select count(*), min(a), max(a) from {T} where k = ?", "args": [lb], "ordered": 1},
                {"op": "sql", "c": "w", "kind": "query", "q": "select count(*) from {T} where k < ?", "args": [lb], "ordered": 1},
                {"op": "sql", "c": "w", "kind": "query", "q": "select count(*) from {T} where k >= ? and k <= ?", "args": [la, lb], "ordered": 1},
                {"op": "sql", "c": "w", "kind": "exec", "q": "update {T} set a = 'upd' where k = ?", "args": [lb]},
                {"op": "sql", "c": "w", "kind": "exec", "q": "insert into {T} (k, a) values (NULL, 'nullkey')", "args": []},
                {"op": "reopen", "c": "w"},
                {"op": "sql", "c": "w", "kind": "query", "q": "select k, a, typeof(k) from {T} order by k", "args": [], "ordered": 1},
                {"op": "sql", "c": "w", "kind": "exec", "q": "delete from {T} where k = ?", "args": [la]},
                {"op": "sql", "c": "w", "kind": "exec", "q": "insert into {T} (k, a) values (?, 'third')", "args": [lb]},
                {"op": "sql", "c": "w", "kind": "query", "q": "select k, a from {T} order by k", "args": [], "ordered": 1},
            ]
            feats = set()
            if "t:" in (la, lb):
                feats.add("empty_text")
                feats.add("empty_text_key")
            if p["cmp"] == 0 and la != lb:
                # numerically equal keys with different representations: INTEGER n / REAL n.0, or +0.0 / -0.0
                feats.add("int_real_twin")
            if 0 < epn <= 4 and dp:
                feats.add("small_epn")
            cache = rng.choice([0, 0, 8])
            if cache:
                feats.add("node_cache")
            scen.append({"id": "c07-%d-d%d" % (j, dp), "kind": "seq", "features": sorted(feats),
                         "cfg": {"cols": ["a"], "colspec": "k primary key, a", "shadow_colspec": "k primary key, a", "epn": epn, "cache": cache,
                                 "log_s3": 0, "shadow": 1}, "steps": steps})
            nsql += 1
    notes.append("%d direct comparisons (every pair x every representative); %d insert-pair programs on s3db + native" % (len(cmps), nsql))
    vf.log("; ".join(notes))
    traces, info = vf.run_harness(binary, scen, workdir)
    vf.log("executed %d scenarios in %.1fs (crashes=%d hangs=%d)" % (len(scen), info["wall"], info["crashes"], info["hangs"]))
    viols, events, mstates, mwall = vf.run_monitor(workdir, traces, [prop], colseq=("a",))
    vf.log("monitor: %d events validated in %.1fs, %d raw violations" % (events, mwall, len(viols)))
    if any(v["pred"] == "C07_SPEC_DISAGREES_WITH_SQLITE" for v in viols):
        bad = [v for v in viols if v["pred"] == "C07_SPEC_DISAGREES_WITH_SQLITE"][:3]
        raise vf.MachineryError("the specification's key order disagrees with native SQLite (machinery error, not a verdict): %s" % json.dumps(bad)[:1500])
    by_id = {s["id"]: s for s in scen}
    coverage = {
        "evaluations": len(cmps) + nsql,
        "distinct_nontrivial": len({(c["a"], c["b"]) for c in cmps if c["a"] != c["b"]}),
        "rule": "every ordered pair of the abstract keys of KeyOrder.tla x every concrete representative is compared directly; pairs are inserted (a then b) at tree depths 1-3 into s3db and a native table; distinct = distinct ordered pairs of different literals",
        "samples": [cmps[5], {"scenario": scen[1]["id"], "steps": scen[1]["steps"][-14:]}],
        "states": d, "transitions": g, "traces_validated_against_impl": len(scen), "trace_events_validated": events,
        "generator_runs": notes, "harness": info, "exhaustive": tier == "thorough",
    }
    assumptions = [
        "the abstract positions' concrete values are ordered by construction (exact integers / exactly representable doubles) and the order is cross-checked against native SQLite on every pair (a disagreement is a machinery error)",
        "values between the boundary classes are not enumerated (exploration of an input space)",
    ]
    evs = vf.load_trace(traces)
    return vf.finish(prop, tier, workdir, by_id, evs, viols, "exploration", coverage, t0, assumptions)
