"""C05, C11, C12, C13, C15, C16: history scenarios.

The behaviours come from S3db.tla (TLC, exhaustive small scope + simulation): writers,
statements with arbitrary write times, refreshes, read-write opens, and (C05)
BEGIN/COMMIT/ROLLBACK.  Each property adds its own OBSERVATION steps to every
behaviour (they read, or attempt operations whose outcome the property constrains);
Monitor.tla evaluates the property's predicates on the recorded trace.
"""
import json
import zlib
import os
import random
import time

import vf
from merge_family import KEY_POOLS, canon, cfg_text

ABSENT_KEY = "i:987654"


import struct


def _r(x):
    return "r:%016x" % struct.unpack(">Q", struct.pack(">d", x))[0]


# boundary values of every storage class (C08); NaN is excluded: SQLite turns it into NULL before the table sees it
VALUE_POOL = [
    "NULL", "i:0", "i:1", "i:-1", "i:9223372036854775807", "i:-9223372036854775808", "i:9007199254740993", "i:255", "i:-256",
    _r(0.0), _r(-0.0), _r(1.5), _r(-2.25), _r(5e-324), _r(1.7976931348623157e308), _r(float("inf")), _r(float("-inf")),
    _r(9007199254740992.0), _r(1e15 + 0.3), _r(0.1), _r(1.0), _r(-1.0),
    "t:", "t:a", "t:\u00e9", "t:\u4e2d\u6587", "t:a'b\"c", "t:line\nbreak\ttab", "t: lead and trail ", "t:" + "long" * 40, "t:0", "t:NULL", "t:1.5",
    "x:", "x:00", "x:ff00ff", "x:" + "ab" * 100, "x:0000000000", "x:7f80",
    # TEXT that is not valid UTF-8 (lone 0xFF, overlong NUL, encoded surrogate, truncated sequence): a value that cannot be
    # stored must be refused with an error, never altered
    "u:61ff62", "u:c080", "u:eda080", "u:e282",
]
KEY_POOLS_C08 = [
    ["i:-9223372036854775808", "i:0", "i:9223372036854775807"],
    [_r(float("-inf")), _r(-0.0), _r(float("inf"))],
    ["i:-1", _r(0.5), "t:"],
    ["t:", "t:\u00e9", "x:"],
    ["x:", "x:00", "x:ff"],
    [_r(1e300), "t:a'b", "x:00ff"],
    ["i:9007199254740993", _r(9007199254740994.0), "t:\u4e2d"],
]


def num_id(lit):
    """identity of a literal AS A KEY: numerically equal INTEGER and REAL literals are the same key"""
    from fractions import Fraction
    if lit.startswith("i:"):
        return ("num", Fraction(int(lit[2:])))
    if lit.startswith("r:"):
        x = struct.unpack(">d", struct.pack(">Q", int(lit[2:], 16)))[0]
        if x != x or x in (float("inf"), float("-inf")):
            return ("real", lit)
        return ("num", Fraction(x))
    return ("lit", lit)


def base_steps(beh, rng, keymap, values=None):
    """Translate a TLC behaviour to harness steps (no observations yet).
    values: optional function (col, wt) -> typed literal (default: a text token naming column and write time)."""
    steps = []
    nst = 0
    for st in beh:
        op = st["op"]
        if op in ("open", "refresh"):
            steps.append({"op": op, "c": st["c"], "mode": st.get("mode", "rw"), "perm": st.get("perm", 0)})
        elif op == "stmt":
            nst += 1
            cols = {c: (values(c, st["wt"]) if values else "t:%s%d" % (c, st["wt"])) for c in st["cs"]}
            steps.append({"op": "stmt", "c": st["c"], "id": "s%d" % nst, "kind": st["kind"], "key": keymap[st["key"]],
                          "cols": cols, "wt": st["wt"], "intx": st.get("intx", 0)})
        elif op in ("begin", "commit", "rollback"):
            steps.append({"op": op, "c": st["c"]})
        else:
            raise vf.MachineryError("unknown step in behaviour: %r" % (st,))
    return steps


def commits(step):
    """Does this step possibly create a version?"""
    return (step["op"] == "stmt" and step.get("intx", 0) == 0) or step["op"] in ("commit", "open", "refresh", "prefill")


class Inst:
    """Per-property instrumentation of one behaviour."""

    def __init__(self, prop, rng):
        self.prop = prop
        self.rng = rng
        self.nv = 0
        self.saved = []

    def save_version(self, out, c):
        self.nv += 1
        lab = "V%d" % self.nv
        out.append({"op": "version", "c": c, "save": lab})
        self.saved.append(lab)
        return lab


def instrument(prop, beh, idx, rng):
    pool = KEY_POOLS[rng.randrange(len(KEY_POOLS))] if rng.random() < 0.4 else KEY_POOLS[0]
    values = None
    if prop == "C08":
        pool = KEY_POOLS_C08[rng.randrange(len(KEY_POOLS_C08))]
        salt = rng.randrange(1 << 30)
        # (storable values only here; the unstorable ones are written by the explicit statements below, on single-node trees)
        mpool = [v for v in VALUE_POOL if not v.startswith("u:")]
        values = lambda c, wt: mpool[(zlib.crc32(("%s/%s" % (c, wt)).encode()) ^ salt) % len(mpool)]
    keymap = {"k1": pool[0], "k2": pool[1], "k3": pool[2]}
    steps = base_steps(beh, rng, keymap, values)
    writers = []
    for s in steps:
        if s["op"] == "open" and s["c"] not in writers:
            writers.append(s["c"])
    feats = set()
    deep = prop in ("C16", "C05", "C11", "C12", "C08") and rng.random() < 0.6
    epn = rng.choice([2, 3, 4]) if deep else rng.choice([2, 4096, 0])
    cache = rng.choice([0, 0, 8])
    if prop in ("C05", "C11", "C16") and cache > 0 and 0 < epn <= 4 and rng.random() < 0.8:
        cache = 0   # KF-C05-1 (dependency) lives in cache>0 x small epn: keep that corner small but present
    out = []
    inst = Inst(prop, rng)
    post = []
    fresh_n = [0]

    def fresh():
        fresh_n[0] += 1
        return "f%d" % fresh_n[0]

    pre = []
    if deep:
        feats.add("multilevel")
        pre = [{"op": "open", "c": "w0", "mode": "rw"},
               {"op": "prefill", "c": "w0", "n": rng.choice([6, 15, 40] if prop != "C08" else [5, 9]), "base": 1000, "stride": rng.choice([1, 3, 7]), "wt": 0}]
    out += pre
    if prop == "C16":
        if pre:
            out += [{"op": "dump", "c": "w0"}, {"op": "version", "c": "w0", "save": "P"},
                    {"op": "kvdump", "c": fresh(), "only_ref": "P", "tag": "w0", "cache": cache}, {"op": "reach"}]
        for s in steps:
            out.append(s)
            if commits(s) and s.get("mode") != "ro":
                w = s["c"]
                out.append({"op": "dump", "c": w})
                lab = inst.save_version(out, w)
                out.append({"op": "kvdump", "c": fresh(), "only_ref": lab, "tag": w, "cache": rng.choice([0, 8])})
                if rng.random() < 0.5:
                    out.append({"op": "reach"})
        w = writers[0]
        out += [{"op": "stmt", "c": w, "id": "n1", "kind": "upd", "key": ABSENT_KEY, "cols": {"a": "t:zz"}, "wt": 50},
                {"op": "stmt", "c": w, "id": "n2", "kind": "del", "key": ABSENT_KEY, "wt": 51},
                {"op": "begin", "c": w}, {"op": "commit", "c": w},
                {"op": "reach"}, {"op": "open", "c": fresh(), "mode": "ro"}]
        # a commit that fails part-way, then a successful one: what is acknowledged must be complete
        for k in range(0, 4):
            out += [{"op": "plan", "c": w, "fail_at": k, "kind": "err", "persistent": 1},
                    {"op": "stmt", "c": w, "id": "g%d" % k, "kind": "ins", "key": "i:%d" % (1001 + 11 * k), "cols": {"a": "t:g"}, "wt": 60 + k},
                    {"op": "heal", "c": w},
                    {"op": "stmt", "c": w, "id": "h%d" % k, "kind": "ins", "key": "i:%d" % (2002 + 13 * k), "cols": {"a": "t:h"}, "wt": 65 + k},
                    {"op": "dump", "c": w}]
            lab = inst.save_version(out, w)
            out += [{"op": "kvdump", "c": fresh(), "only_ref": lab, "tag": w}, {"op": "reach"}]
        out += [{"op": "open", "c": fresh(), "mode": "ro"}, {"op": "bucket"}]
    elif prop == "C11":
        for i, s in enumerate(steps):
            out.append(s)
            if commits(s):
                inst.save_version(out, s["c"])
            if inst.saved and rng.random() < 0.5:
                lab = rng.choice(inst.saved)
                out.append({"op": "kvdump", "c": fresh(), "only_ref": lab})
                out.append({"op": "changes", "c": s["c"], "from": [], "to_ref": lab})
        w = writers[0]
        out += [{"op": "stmt", "c": w, "id": "n1", "kind": "upd", "key": ABSENT_KEY, "cols": {"a": "t:zz"}, "wt": 50},
                {"op": "refresh", "c": w}, {"op": "refresh", "c": w}]
        inst.save_version(out, w)
        out.append({"op": "open", "c": "m1", "mode": "rw", "perm": rng.randrange(6)})
        inst.save_version(out, "m1")
        for lab in inst.saved:
            out.append({"op": "kvdump", "c": fresh(), "only_ref": lab})
            out.append({"op": "changes", "c": "m1", "from": [], "to_ref": lab})
        # a storage fault while a commit retires its parent must not lose the parent's name
        for k in range(0, 5):
            inst.save_version(out, "m1")
            out += [{"op": "plan", "c": "m1", "fail_mut_at": k, "kind": "err"},
                    {"op": "stmt", "c": "m1", "id": "q%d" % k, "kind": "ins", "key": "i:%d" % (6100 + k), "cols": {"a": "t:q"}, "wt": 70 + k},
                    {"op": "heal", "c": "m1"}, {"op": "refresh", "c": "m1", "when": 300 + k}]
            for lab in inst.saved[-3:]:
                out.append({"op": "kvdump", "c": fresh(), "only_ref": lab})
        # (after the epilogue, because a vacuum obliges every other open handle to refresh before it reads again:)
        # a vacuum only makes versions unreadable that its cutoff covers: whatever is still in the bucket reads as before
        # ... for several cutoffs placed at and just after the creation times of the scenario's versions (= the open /
        # refresh times of the handles that wrote them), each tried from the same bucket state
        whens = sorted({st.get("when", 100 + i) for i, st in enumerate(out) if st["op"] in ("open", "refresh")})
        cands = sorted({w + d for w in whens for d in (0, 1)})
        rng.shuffle(cands)
        cuts = sorted(cands[:3] + [rng.choice([103, 110, 120, 305])])
        if cache > 0 and rng.random() < 0.6:
            # one handle (with a node cache) vacuums, writes, returns the tree to an earlier content and vacuums again: the
            # version it then names must be readable by everybody (a node the first vacuum deleted has to be stored again)
            post += [{"op": "open", "c": "cw", "mode": "rw", "when": 380, "perm": rng.randrange(6)},
                     {"op": "stmt", "c": "cw", "id": "cw1", "kind": "ins", "key": "i:6301", "cols": {"a": "t:cw1"}, "wt": 381},
                     {"op": "stmt", "c": "cw", "id": "cw2", "kind": "ins", "key": "i:6302", "cols": {"a": "t:cw2"}, "wt": 382},
                     {"op": "vacuum", "c": "cw", "cutoff": 2000},
                     {"op": "stmt", "c": "cw", "id": "cw3", "kind": "del", "key": "i:6302", "wt": 383},
                     {"op": "vacuum", "c": "cw", "cutoff": 2000}, {"op": "rows", "c": "cw"}]
            inst.save_version(post, "cw")
            post += [{"op": "kvdump", "c": fresh(), "only_ref": inst.saved[-1]},
                     {"op": "changes", "c": "cw", "from": [], "to_ref": inst.saved[-1]},
                     {"op": "open", "c": fresh(), "mode": "ro", "perm": rng.randrange(6)}]
        post += [{"op": "refresh", "c": "m1", "when": 400}, {"op": "snapshot", "name": "prevac"}]
        for j, cut in enumerate(cuts):
            vc = "vc%d" % j
            post += [{"op": "restore", "name": "prevac"}, {"op": "open", "c": vc, "mode": "rw", "when": 410 + j, "perm": rng.randrange(6)},
                     {"op": "vacuum", "c": vc, "cutoff": cut}]
            for lab in inst.saved:
                post.append({"op": "kvdump", "c": fresh(), "only_ref": lab})
    elif prop == "C12":
        for s in steps:
            out.append(s)
            if commits(s):
                inst.save_version(out, s["c"])
        out.append({"op": "open", "c": "m1", "mode": "rw", "perm": rng.randrange(6)})
        inst.save_version(out, "m1")
        out.append({"op": "open", "c": "x", "mode": "ro"})
        labs = inst.saved
        pairs = [(a, b) for a in labs for b in labs if a != b]
        rng.shuffle(pairs)
        for a, b in pairs[:14]:
            out.append({"op": "changes", "c": "x", "from_ref": a, "to_ref": b})
        for lab in labs[:4]:
            out.append({"op": "changes", "c": "x", "from": [], "to_ref": lab})
            out.append({"op": "changes", "c": "x", "from_ref": lab})
        # one storage fault at each early request index of a diff
        for a, b in pairs[:2]:
            for k in range(0, 10):
                out.append({"op": "plan", "c": "x", "fail_at": k, "kind": rng.choice(["err", "deadline", "404", "404"]), "persistent": rng.choice([0, 1])})
                out.append({"op": "changes", "c": "x", "from_ref": a, "to_ref": b})
                out.append({"op": "heal", "c": "x"})
        feats.add("faults")
        # a vacuum reclaims old versions: a diff that names one of them must fail, not answer as if it were empty
        post += [{"op": "refresh", "c": "m1", "when": 500}, {"op": "vacuum", "c": "m1", "cutoff": 400}, {"op": "refresh", "c": "x"}]
        for a, b in pairs[:6]:
            post.append({"op": "changes", "c": "x", "from_ref": a, "to_ref": b})
        for lab in labs[:4]:
            post.append({"op": "changes", "c": "x", "from_ref": lab})
    elif prop == "C13":
        at = rng.randrange(len(steps) + 1)
        ro_ops = []
        ro = "ro1"

        def ro_block():
            blk = [{"op": "open", "c": ro, "mode": "ro", "perm": rng.randrange(6)}, {"op": "rows", "c": ro}]
            cand = [s for s in steps if s["op"] == "stmt"]
            k_exist = cand[0]["key"] if cand else keymap["k1"]
            attempts = [
                {"op": "stmt", "c": ro, "id": "r1", "kind": "ins", "key": "i:424242", "cols": {"a": "t:ro"}, "wt": 60},
                {"op": "stmt", "c": ro, "id": "r2", "kind": "upd", "key": k_exist, "cols": {"b": "t:ro"}, "wt": 61},
                {"op": "stmt", "c": ro, "id": "r3", "kind": "del", "key": k_exist, "wt": 62},
                {"op": "stmt", "c": ro, "id": "r4", "kind": "updall", "key": "-", "cols": {"a": "t:ro"}, "wt": 63},
                {"op": "stmt", "c": ro, "id": "r5", "kind": "delall", "key": "-", "wt": 64},
            ]
            rng.shuffle(attempts)
            for a in attempts:
                blk += [a, {"op": "rows", "c": ro, "same": "C13"}]
            blk += [{"op": "begin", "c": ro},
                    {"op": "stmt", "c": ro, "id": "r6", "kind": "ins", "key": "i:424243", "cols": {"a": "t:ro"}, "wt": 65, "intx": 1},
                    {"op": "commit", "c": ro}, {"op": "rows", "c": ro, "same": "C13"},
                    {"op": "version", "c": ro, "save": "RO"}, {"op": "changes", "c": ro, "from": [], "to_ref": "RO"},
                    {"op": "changes", "c": ro, "from_ref": "RO"},
                    {"op": "vacuum", "c": ro, "cutoff": 100000}, {"op": "rows", "c": ro, "same": "C13"},
                    {"op": "refresh", "c": ro, "perm": rng.randrange(6)}, {"op": "bucket"}]
            return blk
        for i, s in enumerate(steps):
            if i == at:
                out += ro_block()
            out.append(s)
        if at == len(steps):
            out += ro_block()
        out += [{"op": "refresh", "c": ro, "perm": rng.randrange(6)}, {"op": "rows", "c": ro},
                {"op": "stmt", "c": ro, "id": "r9", "kind": "delall", "key": "-", "wt": 70}, {"op": "rows", "c": ro, "same": "C13"}]
    elif prop == "C15":
        stmts = []
        for s in steps:
            out.append(s)
            if s["op"] == "stmt":
                stmts.append(s)
            # retry an earlier statement of the same writer, byte for byte
            if stmts and rng.random() < 0.5 and s["op"] == "stmt" and s.get("intx", 0) == 0:
                mine = [x for x in stmts if x["c"] == s["c"] and x.get("intx", 0) == 0]
                if mine:
                    r = dict(rng.choice(mine))
                    r["id"] = r["id"] + "r"
                    out += [{"op": "rows", "c": s["c"]}, r, {"op": "rows", "c": s["c"], "same": "C15"}]
        # retry on another writer, then merge
        if stmts and len(writers) > 1:
            r = dict(rng.choice(stmts))
            others = [w for w in writers if w != r["c"]]
            r["c"] = rng.choice(others)
            r["id"] = r["id"] + "x"
            r["intx"] = 0
            out.append(r)
        # connection attributes
        w = writers[0]
        out += [{"op": "conn_get", "c": w},
                {"op": "conn_set", "c": w, "attr": "write_time", "t": 40}, {"op": "conn_get", "c": w},
                {"op": "stmt", "c": w, "id": "a1", "kind": "ins", "key": "i:5151", "cols": {"a": "t:attr"}, "wt": 40, "keep_wt": 1},
                {"op": "dump", "c": w, "tag": "stamp"},
                {"op": "stmt", "c": w, "id": "a2", "kind": "upd", "key": "i:5151", "cols": {"b": "t:attr2"}, "wt": 40, "keep_wt": 1},
                {"op": "dump", "c": w, "tag": "stamp"},
                {"op": "conn_set", "c": w, "attr": "deadline", "t": 90000}, {"op": "conn_get", "c": w},
                {"op": "conn_set", "c": w, "attr": "write_time"}, {"op": "conn_get", "c": w},
                {"op": "stmt", "c": w, "id": "a3", "kind": "ins", "key": "i:5152", "cols": {"a": "t:attr3"}, "wt": -999, "keep_wt": 1},
                {"op": "dump", "c": w, "tag": "stamp"},
                {"op": "conn_set", "c": w, "attr": "deadline"}, {"op": "conn_get", "c": w},
                {"op": "rows", "c": w},
                # write_time set explicitly inside a transaction stays set after COMMIT
                {"op": "conn_set", "c": w, "attr": "write_time"}, {"op": "begin", "c": w},
                {"op": "stmt", "c": w, "id": "b1", "kind": "ins", "key": "i:5160", "cols": {"a": "t:b1"}, "wt": -999, "keep_wt": 1, "intx": 1},
                {"op": "conn_set", "c": w, "attr": "write_time", "t": 45}, {"op": "conn_get", "c": w},
                {"op": "stmt", "c": w, "id": "b2", "kind": "ins", "key": "i:5161", "cols": {"a": "t:b2"}, "wt": 45, "keep_wt": 1, "intx": 1},
                {"op": "commit", "c": w}, {"op": "conn_get", "c": w},
                {"op": "stmt", "c": w, "id": "b3", "kind": "ins", "key": "i:5162", "cols": {"a": "t:b3"}, "wt": 45, "keep_wt": 1},
                {"op": "dump", "c": w, "tag": "stamp"}, {"op": "rows", "c": w},
                # an expired deadline applies to the statements issued while it is set, and only to those
                {"op": "conn_set", "c": w, "attr": "deadline", "raw": "2001-01-01 00:00:00"}, {"op": "conn_get", "c": w},
                {"op": "refresh", "c": w},
                {"op": "stmt", "c": w, "id": "a4", "kind": "ins", "key": "i:5153", "cols": {"a": "t:attr4"}, "wt": 41},
                {"op": "conn_set", "c": w, "attr": "deadline"}, {"op": "conn_get", "c": w},
                {"op": "refresh", "c": w}, {"op": "rows", "c": w},
                {"op": "stmt", "c": w, "id": "a5", "kind": "ins", "key": "i:5154", "cols": {"a": "t:attr5"}, "wt": 42},
                {"op": "rows", "c": w}]
        if len(writers) > 1:
            out += [{"op": "conn_get", "c": writers[1]}]
    elif prop == "C08":
        # values of every class in key and non-key position; read back by the writer, after commit, by other processes,
        # after merges, through named versions, and after a vacuum
        for s in steps:
            out.append(s)
            if s["op"] == "stmt":
                out.append({"op": "rows", "c": s["c"]})
                if rng.random() < 0.4:
                    out.append({"op": "open", "c": fresh(), "mode": "ro", "perm": rng.randrange(6)})
        w = writers[0]
        # every pool value once, in both non-key columns and as a key where it can be one
        vals = list(VALUE_POOL)
        rng.shuffle(vals)
        bad = [v for v in vals if v.startswith("u:")]
        vals = [v for v in vals if not v.startswith("u:")]
        if not (0 < epn <= 4):
            # unstorable TEXT only on single-node trees: on a multi-level tree the refused INSERT survives the forced
            # rollback in the handle's working tree (KF-MAST-1) and poisons every later commit of that handle (KF-MAST-5)
            vals[2:2] = bad[:2]
        usedk = set(num_id(x) for x in keymap.values())
        for j, v in enumerate(vals[:10]):
            out.append({"op": "stmt", "c": w, "id": "v%d" % j, "kind": "ins", "key": "i:%d" % (3000 + j), "cols": {"a": v, "b": vals[-1 - j]}, "wt": 50 + j})
            # (numerically equal INTEGER/REAL literals are ONE key: use each numeric value once; C07 covers equal keys)
            if v != "NULL" and num_id(v) not in usedk:
                usedk.add(num_id(v))
                out.append({"op": "stmt", "c": w, "id": "k%d" % j, "kind": "ins", "key": v, "cols": {"a": "t:key%d" % j}, "wt": 50 + j})
        out += [{"op": "rows", "c": w}, {"op": "version", "c": w, "save": "W"}, {"op": "kvdump", "c": fresh(), "only_ref": "W"},
                {"op": "changes", "c": w, "from": [], "to_ref": "W"}]
        post += [{"op": "refresh", "c": "z2", "when": 700},
                 {"op": "stmt", "c": "z2", "id": "d1", "kind": "del", "key": "i:3000", "wt": 80},
                 {"op": "rows", "c": "z2"}, {"op": "vacuum", "c": "z2", "cutoff": 1000}, {"op": "rows", "c": "z2", "same": "C08"},
                 {"op": "open", "c": fresh(), "mode": "ro"}]
        if any(lit == "t:" for st in out for lit in ([st.get("key")] + list(st.get("cols", {}).values()))):
            feats.add("empty_text")
        if any(str(lit).startswith("u:") for st in out for lit in ([st.get("key")] + list(st.get("cols", {}).values()))):
            # a refused statement in autocommit mode is a forced rollback
            feats.add("rollback_or_failed_commit")
    elif prop == "C05":
        # observations around transactions
        intx = {}
        for s in steps:
            c = s.get("c")
            if s["op"] == "begin":
                out.append({"op": "rows", "c": c})
                out.append(s)
                intx[c] = True
                continue
            out.append(s)
            if s["op"] == "stmt" and s.get("intx", 0) == 1:
                out.append({"op": "rows", "c": c})
                if rng.random() < 0.3:
                    out.append({"op": "open", "c": fresh(), "mode": "ro", "perm": rng.randrange(6)})
                if rng.random() < 0.25:
                    # a failing statement inside the transaction: duplicate key
                    d = dict(s)
                    d["id"] = s["id"] + "d"
                    d["kind"] = "ins"
                    d["cols"] = {"a": "t:dup"}
                    out += [d, {"op": "rows", "c": c}]
            if s["op"] == "rollback":
                out += [{"op": "rows", "c": c, "same_as_begin": 1}, {"op": "open", "c": fresh(), "mode": "ro"}]
                intx[c] = False
            if s["op"] == "commit":
                out += [{"op": "rows", "c": c}, {"op": "open", "c": fresh(), "mode": "ro"}]
                intx[c] = False
        w = writers[0]
        # a transaction with the default write time: one time for all its writes
        out += [{"op": "conn_set", "c": w, "attr": "write_time"}, {"op": "rows", "c": w}, {"op": "begin", "c": w},
                {"op": "stmt", "c": w, "id": "t1", "kind": "ins", "key": "i:7001", "cols": {"a": "t:t1"}, "wt": -999, "keep_wt": 1, "intx": 1},
                {"op": "stmt", "c": w, "id": "t2", "kind": "ins", "key": "i:7002", "cols": {"a": "t:t2"}, "wt": -999, "keep_wt": 1, "intx": 1},
                {"op": "stmt", "c": w, "id": "t3", "kind": "upd", "key": "i:7001", "cols": {"b": "t:t3"}, "wt": -999, "keep_wt": 1, "intx": 1},
                {"op": "rows", "c": w},
                {"op": "stmt", "c": w, "id": "t4", "kind": "del", "key": "i:7002", "wt": -999, "keep_wt": 1, "intx": 1},
                {"op": "stmt", "c": w, "id": "t5", "kind": "ins", "key": "i:7002", "cols": {"b": "t:t5"}, "wt": -999, "keep_wt": 1, "intx": 1},
                {"op": "rows", "c": w}, {"op": "commit", "c": w}, {"op": "dump", "c": w, "tag": "txdump"}, {"op": "rows", "c": w},
                {"op": "open", "c": fresh(), "mode": "ro"}]
        # one default-time transaction writing to two s3db tables of the same connection
        out += [{"op": "tx2tables", "c": w, "base": 8800}, {"op": "rows", "c": w}]
        # a transaction whose COMMIT hits a storage fault: forced rollback
        out += [{"op": "rows", "c": w}, {"op": "begin", "c": w},
                {"op": "stmt", "c": w, "id": "u1", "kind": "ins", "key": "i:7003", "cols": {"a": "t:u1"}, "wt": 80, "intx": 1},
                {"op": "stmt", "c": w, "id": "u2", "kind": "upd", "key": "i:7001", "cols": {"a": "t:u2"}, "wt": 80, "intx": 1, "keep_wt": 1},
                {"op": "plan", "c": w, "fail_at": rng.randrange(0, 4), "kind": "err", "persistent": 1},
                {"op": "commit", "c": w}, {"op": "heal", "c": w},
                {"op": "rows", "c": w, "same_as_begin": 2}, {"op": "open", "c": fresh(), "mode": "ro"},
                {"op": "stmt", "c": w, "id": "u3", "kind": "ins", "key": "i:7004", "cols": {"a": "t:u3"}, "wt": 81},
                {"op": "rows", "c": w}, {"op": "open", "c": fresh(), "mode": "ro"}, {"op": "bucket"}]
        # one failing storage mutation at each position of a COMMIT (node PUTs, the version PUT, the retirement of the
        # previous version): whether the COMMIT fails or not, it is all or nothing - a COMMIT that reports failure has
        # published no version, one that reports success is seen whole by every later open
        # (single-node trees only: on multi-level trees every failed COMMIT leaks its INSERT - KF-MAST-1 - and the rest of
        # the scenario would consist of that finding)
        for k in (range(0, 7) if not (0 < epn <= 4) else []):
            out += [{"op": "begin", "c": w},
                    {"op": "stmt", "c": w, "id": "p%d" % k, "kind": "ins", "key": "i:%d" % (7100 + k), "cols": {"a": "t:p%d" % k}, "wt": 82 + k, "intx": 1},
                    {"op": "plan", "c": w, "fail_mut_at": k, "kind": rng.choice(["err", "err", "deadline"])},
                    {"op": "commit", "c": w}, {"op": "heal", "c": w}, {"op": "rollback_any", "c": w},
                    {"op": "rows", "c": w}, {"op": "open", "c": fresh(), "mode": "ro"}]
            if k % 3 == 2:
                # the same for a statement in autocommit mode
                out += [{"op": "plan", "c": w, "fail_mut_at": k - 1, "kind": "err"},
                        {"op": "stmt", "c": w, "id": "pa%d" % k, "kind": "ins", "key": "i:%d" % (7150 + k), "cols": {"a": "t:pa%d" % k}, "wt": 92 + k},
                        {"op": "heal", "c": w}, {"op": "rows", "c": w}, {"op": "open", "c": fresh(), "mode": "ro"}]
        feats.add("tx")
    else:
        raise vf.MachineryError("no instrumentation for " + prop)
    # common epilogue: every writer's view, two readers, a merger
    for w in writers:
        out.append({"op": "rows", "c": w})
    out += [{"op": "open", "c": "z1", "mode": "ro", "perm": rng.randrange(6)},
            {"op": "open", "c": "z2", "mode": "rw", "perm": rng.randrange(6)},
            {"op": "open", "c": "z3", "mode": "ro", "perm": rng.randrange(6)}]
    out += post
    if any(st["op"] in ("plan", "rollback") for st in out):
        feats.add("rollback_or_failed_commit")
    log_nodes = 0
    if cache > 0:
        feats.add("node_cache")
    if 0 < epn <= 4:
        feats.add("small_epn")
    return {"id": "%s-%d" % (prop.lower(), idx), "kind": "seq", "features": sorted(feats),
            "cfg": {"cols": ["a", "b"], "epn": epn, "cache": cache, "log_nodes": log_nodes, "log_reads": 0}, "steps": out}


def conn_scenarios(workdir, tier, rng):
    """The per-connection attribute machine (Conn.tla): every sequence of <=5 attribute / transaction / statement / read-back
    operations, longer ones by simulation. Expected stamps and read-back values are TLC's (they travel in the steps and
    are compared with registers and results by Monitor.tla)."""
    def cfg(maxops):
        return ("CONSTANTS\n  Times = {40, 45}\n  MaxOps = %d\nSPECIFICATION Spec\nINVARIANTS TxNowOnlyInTx Emit\nCHECK_DEADLOCK FALSE\n" % maxops)
    b1, d1, g1, w1 = vf.gen_behaviours(workdir, "Conn", cfg(5), name="gen_conn", workers=8)
    b2, d2, g2, w2 = vf.gen_behaviours(workdir, "Conn", cfg(12), name="gen_conn_sim", simulate=200 if tier == "quick" else 3000, depth=14)
    notes = ["Conn.tla (s3db_conn attribute machine), every sequence of 5 operations: %d behaviours, %d states, %.0fs; 12 operations -simulate: %d behaviours" % (len(b1), d1, w1, len(b2))]
    rng.shuffle(b1)
    rng.shuffle(b2)

    def interesting(beh):
        """an attribute operation inside a transaction that also writes, and a read-back after the transaction"""
        intx = wrote = attr = False
        closed_with_attr = False
        for op in beh:
            o = op["op"]
            if o == "begin":
                intx, wrote, attr = True, False, False
            elif o in ("commit", "rollback"):
                closed_with_attr = closed_with_attr or (wrote and attr)
                intx = False
            elif intx and o == "stmt":
                wrote = True
            elif intx and o in ("set_wt", "clear_wt", "set_dl", "clear_dl"):
                attr = True
            elif o == "get" and closed_with_attr:
                return True
        return False
    if tier == "quick":
        hot = [x for x in b1 if interesting(x)]
        cold = [x for x in b1 if not interesting(x)]
        b1, b2 = hot[:450] + cold[:250], b2[:150]
        notes[0] += "; quick tier: %d behaviours with an attribute operation inside a writing transaction and a later read-back (of %d), %d others" % (min(450, len(hot)), len(hot), min(250, len(cold)))
    scen = []
    for i, beh in enumerate(b1 + b2):
        w = "w1"
        steps = [{"op": "open", "c": w, "mode": "rw"}]
        intx = False
        for op in beh:
            o = op["op"]
            if o == "set_wt":
                steps.append({"op": "conn_set", "c": w, "attr": "write_time", "t": op["t"]})
            elif o == "clear_wt":
                steps.append({"op": "conn_set", "c": w, "attr": "write_time"})
            elif o == "set_dl":
                steps.append({"op": "conn_set", "c": w, "attr": "deadline", **({"t": 90000} if op["kind"] == "future" else {"raw": "2001-01-01 00:00:00"})})
            elif o == "clear_dl":
                steps.append({"op": "conn_set", "c": w, "attr": "deadline"})
            elif o in ("begin", "commit", "rollback"):
                steps.append({"op": o, "c": w})
                intx = o == "begin"
            elif o == "stmt":
                steps.append({"op": "stmt", "c": w, "id": "c%d" % op["n"], "kind": "ins", "key": "i:%d" % (5200 + op["n"]),
                              "cols": {"a": "t:conn%d" % op["n"]}, "wt": op["wt"], "keep_wt": 1, "intx": 1 if op["intx"] else 0})
                if not op["fails"]:
                    steps.append({"op": "dump", "c": w, "tag": "stamp"})
            elif o == "get":
                steps.append({"op": "conn_get", "c": w})
            elif o == "refresh":
                steps.append({"op": "refresh", "c": w})
        if intx:
            steps.append({"op": "commit", "c": w})
        steps += [{"op": "conn_set", "c": w, "attr": "deadline"}, {"op": "rows", "c": w}, {"op": "open", "c": "rd", "mode": "ro"}]
        scen.append({"id": "c15-conn-%d" % i, "kind": "seq", "features": ["conn_machine"],
                     "cfg": {"cols": ["a", "b"], "epn": 0, "cache": 0, "log_nodes": 0, "log_reads": 0}, "steps": steps})
    return scen, d1, g1, notes


def generate(workdir, prop, tier, rng):
    withtx = prop == "C05"
    behs, states, trans, notes = [], 0, 0, []
    seen = set()

    def add(b, cap):
        got = []
        for x in b:
            c = canon(x)
            if c not in seen:
                seen.add(c)
                got.append(x)
        rng.shuffle(got)
        behs.extend(got[:cap])

    if withtx:
        # BEGIN/COMMIT/ROLLBACK multiply the interleavings: 2 writers, 1 key, 2 times, 2 statements, no partial columns
        b, d, g, w = vf.gen_behaviours(workdir, "S3db", cfg_text(["w1", "w2"], ["k1"], 2, 2, 1, 1, partial=False, withtx=True), name="gen_small", timeout=600)
    else:
        b, d, g, w = vf.gen_behaviours(workdir, "S3db", cfg_text(["w1", "w2"], ["k1"], 3, 3, 2, 2), name="gen_small")
    notes.append("S3db small exhaustive (2 writers, 1 key%s): %d behaviours, %d distinct states, %.0fs"
                 % (", 2 times, 2 stmts, BEGIN/COMMIT/ROLLBACK" if withtx else ", 3 times, 3 stmts", len(b), d, w))
    states += d
    trans += g
    add(b, (500 if prop != "C08" else 150) if tier == "quick" else (12000 if prop != "C08" else 3000))
    if prop == "C15":
        # one writer, every order of 4 write times over 4 statements on one key (repeated / decreasing write times)
        b, d, g, w = vf.gen_behaviours(workdir, "S3db", cfg_text(["w1"], ["k1"], 4, 4, 0, 1), name="gen_single")
        notes.append("S3db single writer, 1 key, 4 times, 4 stmts, exhaustive: %d behaviours, %d distinct states, %.0fs" % (len(b), d, w))
        states += d
        trans += g
        add(b, 600 if tier == "quick" else 4000)
    nsim = 150 if tier == "quick" else 2000
    b, d, g, w = vf.gen_behaviours(workdir, "S3db", cfg_text(["w1", "w2", "w3"], ["k1", "k2"], 5, 5, 3, 6, withtx=withtx),
                                   name="gen_sim", simulate=nsim, depth=45)
    notes.append("S3db large -simulate (3 writers, 2 keys, 5 times, 5 stmts): %d behaviours, %.0fs" % (len(b), w))
    states += d
    trans += g
    add(b, (500 if prop != "C08" else 150) if tier == "quick" else (12000 if prop != "C08" else 3000))
    scen = [instrument(prop, x, i, rng) for i, x in enumerate(behs)]
    if prop == "C15":
        cs, d, g, cnotes = conn_scenarios(workdir, tier, rng)
        notes += cnotes
        states += d
        trans += g
        scen += cs
        from merge_family import rowapi_scenarios
        ra, d, g, note = rowapi_scenarios(workdir, tier, rng)
        notes.append(note)
        states += d
        trans += g
        scen += ra
    return scen, states, trans, notes


LEVEL = {"C08": "exploration", "C05": "model_checking", "C11": "model_checking", "C12": "model_checking", "C13": "model_checking",
         "C15": "model_checking", "C16": "model_checking"}


def run(prop, tier):
    t0 = time.time()
    rng = random.Random(vf.seed() * 7919 + int(prop[1:]))
    workdir = vf.fresh_workdir(prop, tier)
    binary = vf.build_harness()
    scen, states, trans, notes = generate(workdir, prop, tier, rng)
    vf.log("; ".join(notes))
    traces, info = vf.run_harness(binary, scen, workdir)
    vf.log("executed %d scenarios in %.1fs (crashes=%d hangs=%d)" % (len(scen), info["wall"], info["crashes"], info["hangs"]))
    viols, events, mstates, mwall = vf.run_monitor(workdir, traces, [prop])
    vf.log("monitor: %d events validated in %.1fs, %d raw violations" % (events, mwall, len(viols)))
    by_id = {s["id"]: s for s in scen}
    sample = scen[0]
    nontrivial = len({json.dumps(s["steps"], sort_keys=True) for s in scen if len(s["steps"]) > 8})
    coverage = {
        "states": states, "transitions": trans,
        "traces_validated_against_impl": len(scen),
        "trace_events_validated": events,
        "samples": [{"scenario": sample["id"], "features": sample["features"], "cfg": sample["cfg"], "steps": sample["steps"][:14]}],
        "evaluations": len(scen), "distinct_nontrivial": nontrivial,
        "rule": "one execution per distinct TLC behaviour of S3db.tla (up to renaming of writers) with the property's observation steps; non-trivial = distinct step sequences longer than 8 steps",
        "generator_runs": notes, "harness": info, "exhaustive": False,
    }
    assumptions = [
        "fake object store with strong read-after-write and list-after-write consistency",
        "sequential execution of the clients' API calls (interleavings at request grain are C03's)",
        "Ideal (Rows.tla) decides expected rows; version contents are derived from the recorded PUTs and statements",
    ]
    evs = vf.load_trace(traces)
    return vf.finish(prop, tier, workdir, by_id, evs, viols, LEVEL[prop], coverage, t0, assumptions)
