"""C04 (crash points) and C14 (storage faults): fault enumeration over model-generated programs.

Programs are behaviours of S3db.tla (writers, statements, transactions, refreshes, merging opens).  Pass 1 executes each
program fault-free and measures, for every API call, how many storage requests (C14) and how many mutating requests
(C04) it issued.  Pass 2 re-executes the program once per fault position:

  C04: "the process dies": every request of the client fails once k mutating requests of the chosen call have been
       applied, for every k in 0..n; the client is abandoned; a read-only open, a read-write (recovery) open, a further
       write and another reader follow.
  C14: one request of the chosen call fails (transport error or expired deadline; once, or persistently from there),
       for every request index; then the fault clears and the same connection refreshes, reads, writes, and a new
       connection reads.

Monitor.tla judges every recorded execution: views are unions of whole versions (rows = Ideal of the loaded versions'
statements - never a mixture, never truncated), acknowledged commits are contained in every later open, opens after
the crash / after the fault cleared succeed, objects referenced by current versions exist, no panic, no hang.
"""
import json
import struct
import os
import random
import time

import vf
from merge_family import KEY_POOLS, canon, cfg_text
from hist_family import base_steps


def base_scenario(beh, idx, rng, prop):
    pool = KEY_POOLS[0]
    keymap = {"k1": pool[0], "k2": pool[1], "k3": pool[2]}
    steps = base_steps(beh, rng, keymap)
    deep = rng.random() < 0.6
    epn = rng.choice([2, 3, 4]) if deep else rng.choice([4096, 0])
    cache = 0 if rng.random() < 0.8 else 8
    pre = []
    if deep:
        pre = [{"op": "open", "c": "w0", "mode": "rw"},
               {"op": "prefill", "c": "w0", "n": rng.choice([6, 15, 30]), "base": 1000, "stride": rng.choice([1, 3]), "wt": 0}]
    out = list(pre)
    for s in steps:
        out.append(s)
        # reads are fault targets too (C14)
        if prop == "C14" and s["op"] == "stmt" and rng.random() < 0.5:
            out.append({"op": "rows", "c": s["c"]})
    writers = []
    for s in steps:
        if s["op"] == "open" and s["c"] not in writers:
            writers.append(s["c"])
    if prop == "C14":
        w = writers[0]
        out += [{"op": "refresh", "c": w, "perm": rng.randrange(6)}, {"op": "rows", "c": w},
                {"op": "version", "c": w, "save": "VA"},
                {"op": "stmt", "c": w, "id": "e1", "kind": "ins", "key": "i:4401", "cols": {"a": "t:e1"}, "wt": 90},
                {"op": "version", "c": w, "save": "VB"}]
        if deep:
            # INSERT of keys that are stored in the other numeric representation (REAL n.0 over the prefilled INTEGER n):
            # refused as duplicates - also when a storage request of the statement fails
            for j, n in enumerate((1000, 1003)):
                out.append({"op": "stmt", "c": w, "id": "tw%d" % j, "kind": "ins", "key": "r:%016x" % struct.unpack(">Q", struct.pack(">d", float(n)))[0],
                            "cols": {"a": "t:twin"}, "wt": 91 + j})
        out += [{"op": "changes", "c": w, "from_ref": "VA", "to_ref": "VB"},
                {"op": "changes", "c": w, "from": [], "to_ref": "VB"},
                {"op": "open", "c": "m0", "mode": "rw", "perm": rng.randrange(6)}]
    feats = set()
    if cache > 0:
        feats.add("node_cache")
    if 0 < epn <= 4:
        feats.add("small_epn")
    return {"id": "%s-b%d" % (prop.lower(), idx), "kind": "seq", "features": sorted(feats),
            "cfg": {"cols": ["a", "b"], "epn": epn, "cache": cache, "log_nodes": 0, "log_reads": 0}, "steps": out}, writers


TARGET_OPS = ("open", "refresh", "stmt", "commit", "rows", "changes", "prefill")


def measure(trace_events):
    """scenario id -> {step index: (dr, dm, client, outcome)} from a fault-free run."""
    res = {}
    for e in trace_events:
        if e.get("ev") in ("open_done", "stmt", "commit", "rows", "changes") and "dr" in e and "step" in e:
            d = res.setdefault(e["sc"], {})
            prev = d.get(e["step"], (0, 0, e.get("c"), "ok"))
            d[e["step"]] = (max(prev[0], e["dr"]), max(prev[1], e["dm"]), e.get("c"), e.get("outcome"))
    return res


def variant(base, step_i, client, plan, tag, rng, prop):
    steps = list(base["steps"])
    s0 = steps[:step_i]
    target = steps[step_i]
    rest = steps[step_i + 1:]
    feats = set(base["features"])
    if prop == "C14" or any(x["op"] == "rollback" for x in steps):
        # (a crashed client is abandoned: no rollback runs in it)
        feats.add("rollback_or_failed_commit")
    if prop == "C04":
        # the client dies inside the call; whatever it did after is not executed
        rec = [{"op": "plan", "c": client, **plan}, target, {"op": "heal", "c": client}, {"op": "close", "c": client},
               {"op": "reach", "tag": "crash"},
               {"op": "open", "c": "rr1", "mode": "ro", "perm": rng.randrange(6)},
               {"op": "open", "c": "rec", "mode": "rw", "perm": rng.randrange(6)},
               {"op": "open", "c": "rr2", "mode": "ro", "perm": rng.randrange(6)},
               {"op": "stmt", "c": "rec", "id": "rc1", "kind": "ins", "key": "i:7701", "cols": {"a": "t:rec"}, "wt": 95},
               {"op": "rows", "c": "rec"},
               {"op": "open", "c": "rr3", "mode": "ro", "perm": rng.randrange(6)},
               {"op": "reach", "tag": "crash"}]
        # the other clients of the program carry on after the crash (they never talk to the dead one)
        opened = {x["c"] for x in s0 if x["op"] == "open"} - {client}
        intx = set()
        for s in rest:
            c2 = s.get("c")
            if c2 == client or c2 is None:
                continue
            if s["op"] == "open":
                opened.add(c2)
                rec.append(s)
            elif c2 in opened and s["op"] in ("stmt", "refresh", "rows", "begin", "commit", "rollback"):
                rec.append(s)
        rec += [{"op": "open", "c": "rr4", "mode": "rw", "perm": rng.randrange(6)},
                {"op": "open", "c": "rr5", "mode": "ro", "perm": rng.randrange(6)}]
        steps = s0 + rec
    else:
        rec = [{"op": "plan", "c": client, **plan}, target, {"op": "heal", "c": client}]
        in_tx = False
        for x in s0 + [target]:
            if x.get("c") == client:
                if x["op"] == "begin":
                    in_tx = True
                elif x["op"] in ("commit", "rollback", "open"):
                    in_tx = False
        if target["op"] == "open":
            # the open failed or succeeded; either way open again for what follows
            rec.append({"op": "open", "c": client, "mode": target.get("mode", "rw"), "perm": rng.randrange(6)})
        else:
            # end the transaction the fault interrupted (if any), then refresh: the property promises recovery
            # "after a refresh"
            rec.append({"op": "rollback_any", "c": client})
            if rng.random() < 0.6:
                rec.append({"op": "refresh", "c": client, "perm": rng.randrange(6)})
            # else: the connection carries on without a refresh - a failed statement must not have left anything
            # behind on it, and a later write that reports success must be readable by every later open
        rec += [{"op": "rows", "c": client},
                {"op": "open", "c": "nn1", "mode": "ro", "perm": rng.randrange(6)}]
        if client not in ("x",) and target.get("mode") != "ro":
            rec += [{"op": "stmt", "c": client, "id": "af1", "kind": "ins", "key": "i:7702", "cols": {"a": "t:after"}, "wt": 96},
                    {"op": "rows", "c": client}, {"op": "open", "c": "nn2", "mode": "ro", "perm": rng.randrange(6)}]
        # the rest of the program continues, minus the statements of an interrupted transaction
        skip_tx = in_tx or target["op"] in ("begin", "commit") or target.get("intx", 0) == 1
        for s in rest:
            if skip_tx and s.get("c") == client and (s.get("intx", 0) == 1 or s["op"] in ("commit", "rollback", "begin")):
                continue
            if s["op"] == "changes":
                continue
            rec.append(s)
        rec += [{"op": "reach"}, {"op": "open", "c": "nn3", "mode": "rw", "perm": rng.randrange(6)},
                {"op": "open", "c": "nn4", "mode": "ro", "perm": rng.randrange(6)}]
        steps = s0 + rec
    return {"id": "%s-%s" % (base["id"], tag), "kind": "seq", "features": sorted(feats), "cfg": base["cfg"], "steps": steps}


def run(prop, tier):
    t0 = time.time()
    rng = random.Random(vf.seed() * 32452843 + int(prop[1:]))
    workdir = vf.fresh_workdir(prop, tier)
    binary = vf.build_harness()
    notes = []
    states = trans = 0
    behs = []
    seen = set()

    def add(b, cap):
        got = []
        for x in b:
            c = canon(x)
            if c not in seen:
                seen.add(c)
                got.append(x)
        rng.shuffle(got)
        behs.extend(got[:cap])

    b, d, g, w = vf.gen_behaviours(workdir, "S3db", cfg_text(["w1", "w2"], ["k1"], 2, 2, 1, 1, partial=False, withtx=True), name="gen_tx", timeout=600)
    notes.append("S3db 2 writers, 1 key, 2 stmts with BEGIN/COMMIT/ROLLBACK, exhaustive: %d behaviours, %d distinct states, %.0fs" % (len(b), d, w))
    states += d
    trans += g
    add(b, 40 if tier == "quick" else 600)
    b, d, g, w = vf.gen_behaviours(workdir, "S3db", cfg_text(["w1", "w2", "w3"], ["k1", "k2"], 5, 5, 3, 6, withtx=True), name="gen_sim",
                                   simulate=(60 if tier == "quick" else 800), depth=45)
    notes.append("S3db 3 writers, 2 keys, 5 stmts, transactions -simulate: %d behaviours, %.0fs" % (len(b), w))
    states += d
    trans += g
    add(b, 50 if tier == "quick" else 700)
    bases = []
    for i, x in enumerate(behs):
        sc, writers = base_scenario(x, i, rng, prop)
        bases.append(sc)
    # pass 1: fault-free, to count the requests of every call
    traces, info1 = vf.run_harness(binary, bases, workdir, name="pass1")
    ev1 = vf.load_trace(traces)
    meas = measure(ev1)
    variants = []
    npos = 0
    for bsc in bases:
        m = meas.get(bsc["id"], {})
        cand = []
        for i, st in enumerate(bsc["steps"]):
            if st["op"] not in TARGET_OPS or i not in m:
                continue
            dr, dm, client, outcome = m[i]
            if client is None or st.get("mode") == "hist":
                continue
            if prop == "C04":
                if dm == 0:
                    continue
                for k in range(0, dm + 1):
                    cand.append((i, client, {"crash_after": k}, "s%dk%d" % (i, k)))
            else:
                for idx in range(0, dr):
                    kind = rng.choice(["err", "deadline"])
                    pers = rng.choice([0, 1])
                    cand.append((i, client, {"fail_at": idx, "kind": kind, "persistent": pers}, "s%df%d%s%d" % (i, idx, kind[0], pers)))
        npos += len(cand)
        rng.shuffle(cand)
        cap = (25 if tier == "quick" else 120)
        for (i, client, plan, tag) in cand[:cap]:
            variants.append(variant(bsc, i, client, plan, tag, rng, prop))
    notes.append("%d fault positions measured over %d programs; %d executed" % (npos, len(bases), len(variants)))
    if prop == "C04":
        # crash points inside s3db_vacuum (its purge commit and its reclaim sweep): behaviours of Vacuum.tla, the vacuuming
        # client killed after each of its first 0..12 mutations, recovery opens, the recovered table written again
        import vac_family
        vs, vd, vg, vnotes = vac_family.generate(workdir, "C04", tier, rng)
        vs = [x for x in vs if "crash" in x["features"]]
        for x in vs:
            x["features"] = sorted(set(x["features"]) | {"rollback_or_failed_commit"})
        variants += vs
        states += vd
        trans += vg
        notes += vnotes
    vf.log("; ".join(notes))
    traces, info = vf.run_harness(binary, variants, workdir, name="pass2")
    vf.log("executed %d fault scenarios in %.1fs (crashes=%d hangs=%d)" % (len(variants), info["wall"], info["crashes"], info["hangs"]))
    viols, events, mstates, mwall = vf.run_monitor(workdir, traces, [prop])
    vf.log("monitor: %d events validated in %.1fs, %d raw violations" % (events, mwall, len(viols)))
    by_id = {s["id"]: s for s in variants}
    sample = variants[0] if variants else bases[0]
    coverage = {
        "evaluations": len(variants),
        "distinct_nontrivial": len({json.dumps(s["steps"], sort_keys=True) for s in variants}),
        "rule": "one execution per (program, API call, fault position): programs are TLC behaviours of S3db.tla (C04 also: Vacuum.tla, crash points inside s3db_vacuum); positions are every k in 0..mutating requests of the call (C04) / every request index x {error, deadline} x {single, persistent} (C14), sampled per program; distinct = distinct step sequences",
        "samples": [{"scenario": sample["id"], "features": sample["features"], "cfg": sample["cfg"],
                     "steps": [s for s in sample["steps"] if s["op"] in ("plan", "heal")] + sample["steps"][:10]}],
        "states": states, "transitions": trans, "traces_validated_against_impl": len(variants), "trace_events_validated": events,
        "fault_positions_measured": npos, "programs": len(bases),
        "generator_runs": notes, "harness": info, "exhaustive": False,
    }
    assumptions = [
        "a crash is modelled as: every request of the client fails once k of its mutating requests have been applied, and the client is abandoned (requests are atomic at the store)",
        "faults are transport errors or context-deadline errors returned by the store client; a well-formed 404 is not a fault here (C09/C12 cover it)",
        "fake object store with strong consistency",
    ]
    evs = vf.load_trace(traces)
    return vf.finish(prop, tier, workdir, by_id, evs, viols, "fault_enumeration", coverage, t0, assumptions)
