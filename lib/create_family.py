"""C20: table definitions are accepted, declared and rejected consistently.

Create.tla builds argument lists (column specifications column by column, a table-level PRIMARY KEY clause, further
arguments from an alphabet of documented / malformed / unknown / duplicated options, the columns argument at every
position or absent) and CreateOps.tla defines which lists are accepted and what table an accepted list declares.  The
driver spells every abstract list concretely (names bare / double-quoted / single-quoted incl. spaces and keywords,
keyword case, white space, modifier order, outer quoting of the columns value) and the harness runs the CREATE on the real
extension, recording the outcome, pragma table_info, select *, the NULL / duplicate-key behaviour of every column, reads by
name, the process-wide registry and the storage mutations.  CreateMonitor.tla recomputes verdict and declaration from the
abstract list and compares.
"""
import json
import os
import random
import time

import vf

ALPHABET = [("entries_per_node", "ok"), ("entries_per_node", "bad"), ("entries_per_node", "noval"),
            ("node_cache_entries", "ok"), ("node_cache_entries", "bad"), ("node_cache_entries", "noval"),
            ("readonly", "ok"), ("s3_bucket", "ok"), ("s3_bucket", "noval"), ("s3_endpoint", "ok"), ("s3_endpoint", "noval"),
            ("s3_prefix", "ok"), ("s3_prefix", "noval"), ("columns", "noval"), ("frobnicate", "ok"), ("frob", "ok")]


def tla_set(xs):
    return "{" + ", ".join(xs) + "}"


def cfg_text(nameids, types, extras, maxcols, maxopts, tpk, alphabet, nocols, emit=True):
    alpha = tla_set('[opt |-> "%s", form |-> "%s"]' % a for a in alphabet)
    tp = tla_set("<<" + ", ".join(map(str, t)) + ">>" for t in tpk)
    mc = ("---- MODULE CreateMC ----\nEXTENDS Create\nAlphaV == %s\nTpkV == %s\n====\n" % (alpha, tp))
    cfg = ("CONSTANTS\n  NameIds = %s\n  Types = %s\n  Extras = %s\n  MaxCols = %d\n  MaxOpts = %d\n  TpkChoices <- TpkV\n  OptAlphabet <- AlphaV\n"
           "  AllowNoColumns = %s\nSPECIFICATION Spec\nINVARIANTS KeyIsUnique KeyRefusesNull RejectedHasReason%s\nCHECK_DEADLOCK FALSE\n"
           % (tla_set(map(str, nameids)), tla_set('"%s"' % t for t in types), tla_set('"%s"' % t for t in extras), maxcols, maxopts,
              "TRUE" if nocols else "FALSE", " Emit" if emit else ""))
    return mc, cfg


def gen(workdir, name, mc, cfg, simulate=None, depth=12):
    d = os.path.join(workdir, name)
    # gen_behaviours writes <module>.cfg into a fresh dir; the MC module must be there too
    os.makedirs(workdir, exist_ok=True)

    def run():
        return vf.gen_behaviours(workdir, "CreateMC", cfg, name=name, simulate=simulate, workers=8, depth=depth, pre={"CreateMC.tla": mc})
    return run()


# ---------------------------------------------------------------- concretisation
NAME_POOLS = [
    [("a", "bare"), ("b", "bare"), ("c", "bare"), ("d", "bare")],
    [("Id", "bare"), ("user_name", "bare"), ("e_mail2", "bare"), ("_x", "bare")],
    [("my col", "dq"), ("b", "bare"), ("select", "dq"), ("x y", "sq")],
    [("a", "dq"), ("from", "dq"), ("it's", "sq"), ("c d e", "dq")],
    [("k", "sq"), ("Mixed Case", "dq"), ("v", "bare"), ("table", "dq")],
]


def spell_name(nm, q):
    if q == "bare":
        return nm
    if q == "dq":
        return '"' + nm + '"'
    return "'" + nm.replace("'", "''") + "'"


def kw(rng, word):
    return rng.choice([word.lower(), word.upper(), word.title()])


def ws(rng):
    return rng.choice([" ", " ", "  ", "\t", "\n "])


def render_spec(spec, pool, rng):
    """column specification text + the expected concrete names"""
    parts, names = [], []
    for c in spec["cols"]:
        nm, q = pool[(c["name"] - 1) % len(pool)]
        names.append(nm)
        s = spell_name(nm, q)
        if c["type"] != "none":
            s += ws(rng) + kw(rng, c["type"])
        mods = []
        if c["pk"]:
            mods.append(kw(rng, "primary") + ws(rng) + kw(rng, "key"))
        if c["nn"]:
            mods.append(kw(rng, "not") + ws(rng) + kw(rng, "null"))
        if c["extra"] == "unique":
            mods.append(kw(rng, "unique"))
        rng.shuffle(mods)
        if c["extra"] == "default":
            mods.append(kw(rng, "default") + " " + rng.choice(["5", "'x'", "NULL"]))   # DEFAULT last (its value would swallow a following keyword)
        for m in mods:
            s += ws(rng) + m
        parts.append(s)
    if spec["tpk"]:
        cols = []
        for t in spec["tpk"]:
            if t == 0:
                cols.append("nosuch")
            else:
                nm, q = pool[(t - 1) % len(pool)]
                cols.append(spell_name(nm, q))
        parts.append(kw(rng, "primary") + ws(rng) + kw(rng, "key") + rng.choice(["", " "]) + "(" + rng.choice([", ", ","]).join(cols) + ")")
    text = rng.choice([", ", ",", " , ", ",\n  "]).join(parts)
    return text, names


def quote_value(text, rng, allow_bare):
    forms = ["sq", "sq"]
    if '"' not in text:
        forms.append("dq")
    if allow_bare and text and not any(ch in text for ch in ",'\"()\n\t"):
        forms.append("bare")
    f = rng.choice(forms)
    if f == "sq":
        return "'" + text.replace("'", "''") + "'"
    if f == "dq":
        return '"' + text + '"'
    return text


def render_arg(a, pool, rng):
    """concrete text of one argument; returns (text, expected names or None)"""
    opt, form = a["opt"], a["form"]
    if opt == "columns" and form == "ok":
        text, names = render_spec(a["spec"], pool, rng)
        return "columns=" + quote_value(text, rng, True), names
    if form == "noval":
        return opt, None
    if opt in ("entries_per_node", "node_cache_entries"):
        if form == "ok":
            return opt + "=" + rng.choice(["2", "4", "16", "4096", "100"]), None
        return opt + "=" + rng.choice(["abc", "4x", "", "1.5", "'4'", "four"]), None
    if opt == "readonly":
        return "readonly", None
    if opt in ("s3_bucket", "s3_endpoint", "s3_prefix"):
        ph = {"s3_bucket": "{BUCKET}", "s3_endpoint": "{ENDPOINT}", "s3_prefix": "{PREFIX}"}[opt]
        return opt + "=" + rng.choice(["'%s'", '"%s"', "%s"] if opt != "s3_endpoint" else ["'%s'", '"%s"']) % ph, None
    if opt == "frobnicate":
        return rng.choice(["frobnicate=1", "column='a'", "s3_region='x'", "Columns='a primary key'", "READONLY", "entries-per-node=4"]), None
    return rng.choice(["frob", "writable", "read_only", "s3_bucket_name"]), None


def build(beh, rng):
    pool = rng.choice(NAME_POOLS)
    pool = pool[:]  # ids 1.. map to the pool in order
    args, names = [], []
    for a in beh["args"]:
        t, nm = render_arg(a, pool, rng)
        args.append(t)
        if nm is not None:
            names = nm
    st = {"op": "create", "c": "w", "args": args, "names": names, "abs": {"args": beh["args"]}, "storage_first": rng.choice([0, 0, 1])}
    opts = {a["opt"] for a in beh["args"]}
    if beh["accepted"] and rng.random() < 0.12:
        st["fault"] = 1            # the storage fails while the (acceptable) table is being opened
    elif "s3_endpoint" in opts and "s3_bucket" not in opts and rng.random() < 0.5:
        st["no_bucket"] = 1        # endpoint for the in-memory bucket: not decided by the documentation
    return st


def run(prop, tier):
    t0 = time.time()
    rng = random.Random(vf.seed() * 32452843 + 20)
    workdir = vf.fresh_workdir(prop, tier)
    binary = vf.build_harness()
    notes, behs = [], []
    states = trans = 0
    ALLT = ["none", "text", "integer", "real", "varchar", "number"]
    TPK = [(), (1,), (2,), (1, 2), (0,)]
    # A: every column specification of <= 2 columns (names may repeat), every modifier combination, every PRIMARY KEY clause
    mc, cfg = cfg_text([1, 2], ["none", "text", "integer"], ["none", "unique", "default"], 2, 0, TPK, [], False)
    b, d, g, w = gen(workdir, "gen_specs", mc, cfg)
    notes.append("Create.tla specs (<=2 columns x 3 types x pk/nn/unique/default x 5 PRIMARY KEY clauses): %d argument lists, %d states, %.0fs" % (len(b), d, w))
    specs = b
    states += d
    trans += g
    # B: every list of <= 2 further arguments from the 16-letter alphabet, the columns argument at every position / absent
    mc, cfg = cfg_text([1], ["none"], ["none"], 1, 2, [()], ALPHABET, True)
    b, d, g, w = gen(workdir, "gen_opts", mc, cfg)
    notes.append("Create.tla options (<=2 further arguments over %d letters, columns at every position or absent): %d argument lists, %d states, %.0fs" % (len(ALPHABET), len(b), d, w))
    optsb = b
    states += d
    trans += g
    # C: simulation of larger lists (4 columns over 3 names and all types, 3 further arguments)
    mc, cfg = cfg_text([1, 2, 3, 4], ALLT, ["none", "none", "unique", "default"][1:], 4, 3, TPK + [(3,), (2, 1)], ALPHABET, True)
    nsim = 300 if tier == "quick" else 6000
    b, d, g, w = gen(workdir, "gen_sim", mc, cfg, simulate=nsim, depth=12)
    notes.append("Create.tla simulation (<=4 columns, all 6 types, <=3 further arguments): %d argument lists" % len(b))
    sim = b
    for n in notes:
        vf.log(n)

    def dedupe(bs):
        seen, out = set(), []
        for x in bs:
            k = json.dumps(x["args"], sort_keys=True)
            if k not in seen:
                seen.add(k)
                out.append(x)
        return out
    specs, optsb, sim = dedupe(specs), dedupe(optsb), dedupe(sim)
    if tier == "quick":
        rng.shuffle(specs)
        rng.shuffle(optsb)
        acc = [x for x in specs if x["accepted"]]
        rej = [x for x in specs if not x["accepted"]]
        specs = acc[:700] + rej[:500]
        optsb = optsb[:900]
        sim = sim[:400]
    chosen = specs + optsb + sim
    reps = 1 if tier == "quick" else 2     # spellings per abstract list
    steps_all = []
    for x in chosen:
        for _ in range(reps):
            steps_all.append(build(x, rng))
    rng.shuffle(steps_all)
    per = 6
    scen = []
    for i in range(0, len(steps_all), per):
        scen.append({"id": "c20-%d" % (i // per), "kind": "seq", "features": [], "cfg": {"cols": ["a"], "log_nodes": 0, "log_reads": 0},
                     "steps": steps_all[i:i + per]})
    vf.log("%d CREATE statements (%d accepted by the specification) in %d scenarios" % (len(steps_all), sum(1 for x in chosen if x["accepted"]) * reps, len(scen)))
    traces, info = vf.run_harness(binary, scen, workdir)
    vf.log("executed %d scenarios in %.1fs (crashes=%d hangs=%d)" % (len(scen), info["wall"], info["crashes"], info["hangs"]))
    viols, events, mstates, mwall = vf.run_monitor(workdir, traces, [prop], module="CreateMonitor")
    vf.log("monitor: %d events validated in %.1fs, %d raw violations" % (events, mwall, len(viols)))
    by_id = {s["id"]: s for s in scen}
    coverage = {
        "evaluations": len(steps_all),
        "distinct_nontrivial": len({json.dumps(s["args"]) for s in steps_all if len(s["args"]) >= 1}),
        "rule": "one evaluation = one CREATE VIRTUAL TABLE with a concrete spelling of a TLC-generated abstract argument list, with all probes; distinct = distinct concrete argument lists with at least one argument",
        "samples": [steps_all[0], steps_all[1]],
        "states": states, "transitions": trans, "traces_validated_against_impl": len(scen), "trace_events_validated": events,
        "generator_runs": notes, "harness": info,
        "exhaustive": tier == "thorough",
    }
    assumptions = [
        "names, quoting, keyword case, white space and option values are sampled spellings of each abstract list (exploration of the concrete input space); the abstract lists of configurations A and B are exhaustive in the thorough tier",
        "not generated because the documentation does not decide them: bare names that are SQL keywords or contain - or ., type words other than text/varchar/integer/number/real, readonly=<value>, zero or negative sizes, s3_endpoint without s3_bucket, UNIQUE on the key column is generated and expected to be rejected (the parser rejects every UNIQUE)",
    ]
    evs = vf.load_trace(traces)
    return vf.finish(prop, tier, workdir, by_id, evs, viols, "exploration", coverage, t0, assumptions)
