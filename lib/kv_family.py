"""C17: the kv layer keeps its last-write and tombstone rules.

KV.tla (model-checked: latest value wins, a tombstone beats every value, the earliest tombstone is kept, merge commutes)
generates all histories of Set / Tombstone / RemoveTombstones / Commit / Open(merge) / Close over 2 handles x 2 keys x
distinct times (one per distinct final state; longer ones by simulation).  Each history is executed on the real kv
package (kv.Open on the fake store) in the default, conflict-callback and custom-merge modes, with reads added after
every step: Get + IsTombstoned of every key, a full cursor dump, Diff against a clone taken earlier and against the other
handle, TraceHistory of every key.  KVMonitor.tla replays the calls through KVOps and requires every read to be exactly
what the model's tree gives.
"""
import json
import os
import random
import time

import vf


def cfg_text(maxt, maxops, maxver, view=True, emit=True):
    return ('CONSTANTS\n  Handles = {"h1", "h2"}\n  KVKeys = {"ka", "kb"}\n  MaxT = %d\n  MaxOps = %d\n  MaxVer = %d\nSPECIFICATION Spec\n%s'
            "INVARIANTS MergeCommutes TombstoneBeatsValue EarliestTombstoneKept LatestValueWins%s\nCHECK_DEADLOCK FALSE\n"
            % (maxt, maxops, maxver, "VIEW View\n" if view else "", " Emit" if emit else ""))


def build(beh, idx, rng, mode):
    steps = []
    open_h = set()
    clones = {}
    keys = ["ka", "kb"]

    def observe(h):
        for k in keys:
            steps.append({"op": "get", "h": h, "k": k})
        steps.append({"op": "dump", "h": h})
        for k in keys:
            if rng.random() < 0.6:
                steps.append({"op": "trace", "h": h, "k": k})
        if h in clones:
            steps.append({"op": "diff", "h": h, "from": clones[h]})
            steps.append({"op": "diff", "h": clones[h], "from": h})
        others = [x for x in open_h if x != h]
        if others:
            steps.append({"op": "diff", "h": h, "from": others[0]})
        if rng.random() < 0.3:
            steps.append({"op": "diff", "h": h, "from": "nobody"})

    for i, st in enumerate(beh):
        op, h = st["op"], st["h"]
        if op == "open":
            steps.append({"op": "open", "h": h, "when": 100 + i})
            open_h.add(h)
            if rng.random() < 0.5:
                c = h + "c"
                steps.append({"op": "clone", "h": h, "h2": c})
                clones[h] = c
        elif op == "set":
            # (values are the driver's choice: often the SAME value at different times, so that an entry's time and
            # its value are independent)
            steps.append({"op": "set", "h": h, "k": st["k"], "t": st["t"], "val": rng.choice(["same", "same", "other", "v%d" % st["t"]])})
        elif op == "tomb":
            steps.append({"op": "tomb", "h": h, "k": st["k"], "t": st["t"]})
        elif op == "rmtomb":
            steps.append({"op": "rmtomb", "h": h, "before": st["before"]})
        elif op == "commit":
            steps.append({"op": "commit", "h": h})
        elif op == "close":
            if h in clones:
                steps.append({"op": "close", "h": clones.pop(h)})
            steps.append({"op": "close", "h": h})
            open_h.discard(h)
            continue
        observe(h)
    # final: a read-only opener and a merging opener
    steps += [{"op": "open", "h": "r1", "ro": 1, "when": 900}]
    open_h.add("r1")
    observe("r1")
    steps += [{"op": "open", "h": "m1", "when": 901}]
    open_h.add("m1")
    observe("m1")
    return {"id": "c17-%s-%d" % (mode, idx), "kind": "kv", "features": [mode],
            "cfg": {"cols": ["a"], "mode": mode, "epn": rng.choice([0, 2]), "log_reads": 0, "log_nodes": 0}, "steps": steps}


def run(prop, tier):
    t0 = time.time()
    rng = random.Random(vf.seed() * 86028121 + 17)
    workdir = vf.fresh_workdir(prop, tier)
    binary = vf.build_harness()
    notes = []
    b, d, g, w = vf.gen_behaviours(workdir, "KV", cfg_text(4, 6, 5), name="gen_small", timeout=1500)
    notes.append("KV 2 handles, 2 keys, 4 distinct times, 6 operations, <=5 versions, exhaustive (one history per distinct final state): %d behaviours, %d distinct states, %.0fs" % (len(b), d, w))
    states, trans = d, g
    rng.shuffle(b)
    behs = b[:(400 if tier == "quick" else 20000)]
    b, d, g, w = vf.gen_behaviours(workdir, "KV", cfg_text(7, 12, 8, view=False), name="gen_sim", simulate=(60 if tier == "quick" else 1500), depth=40)
    notes.append("KV 7 times, 12 operations, <=8 versions -simulate: %d behaviours, %.0fs" % (len(b), w))
    states += d
    trans += g
    rng.shuffle(b)
    behs += b[:(300 if tier == "quick" else 15000)]
    scen = []
    for i, x in enumerate(behs):
        sc = build(x, i, rng, ["lww", "conflict", "custom"][i % 3])
        if (i // 3) % 2 == 1:
            # the earlier gob root format: the store keeps every version object in gob (handles that load gob roots keep
            # writing gob themselves)
            sc["cfg"]["gob"] = 1
            sc["id"] += "-gob"
        scen.append(sc)
    vf.log("; ".join(notes))
    traces, info = vf.run_harness(binary, scen, workdir)
    vf.log("executed %d scenarios in %.1fs (crashes=%d hangs=%d)" % (len(scen), info["wall"], info["crashes"], info["hangs"]))
    viols, events, mstates, mwall = vf.run_monitor(workdir, traces, [prop], module="KVMonitor")
    vf.log("monitor: %d events validated in %.1fs, %d raw violations" % (events, mwall, len(viols)))
    by_id = {s["id"]: s for s in scen}
    sample = scen[0]
    coverage = {
        "states": states, "transitions": trans, "traces_validated_against_impl": len(scen), "trace_events_validated": events,
        "samples": [{"scenario": sample["id"], "cfg": sample["cfg"], "steps": sample["steps"][:20]}],
        "evaluations": len(scen), "distinct_nontrivial": len({json.dumps(s["steps"], sort_keys=True) for s in scen if any(st["op"] == "tomb" for st in s["steps"])}),
        "rule": "one execution per sampled TLC behaviour of KV.tla, rotating the merge mode (default / conflict callback / custom merge) and the root format (JSON / gob); non-trivial = distinct step sequences containing a tombstone",
        "generator_runs": notes, "harness": info, "exhaustive": False,
        "root_formats": {"json": sum(1 for x in scen if not x["cfg"].get("gob")), "gob": sum(1 for x in scen if x["cfg"].get("gob"))},
    }
    assumptions = ["times are distinct within a history (the property's quantifier)", "fake object store with strong consistency",
                   "the custom-merge callback used is crdt.LastWriteWins itself, so the three modes must agree"]
    evs = vf.load_trace(traces)
    return vf.finish(prop, tier, workdir, by_id, evs, viols, "model_checking", coverage, t0, assumptions)
