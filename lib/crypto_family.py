"""C18: encrypted nodes are confidential, authenticated and still deduplicate.

Crypto.tla states the rule on abstract boxes (OpenResult: the original plaintext iff right passphrase and untouched bytes,
an error otherwise; TLC checks Authentic / RoundTrip / WrongKeyFails) and generates histories of Seal (v1 / legacy format;
directly through Encryptor.Encrypt or as a node written by kv.Open with NodeEncryptor) / Damage (9 classes) / Open (right or
wrong passphrase) / Reseal.  The driver gives message classes concrete lengths around the 16/24/32/40/48/64-byte boundaries
and damage classes concrete positions, and adds sweeps in the same vocabulary: every plaintext length 0..N, every single-bit
flip and every truncation of selected ciphertexts.  The harness runs them on the real encryptor; CryptoMonitor.tla
recomputes the expected result of every open from the recorded seals and damages.
"""
import json
import os
import random
import time

import vf

SHORT = [1, 2, 15, 16, 17, 23, 24, 25, 31, 32, 33, 39, 40, 41, 47, 48, 49]
LONG = [63, 64, 65, 100, 127, 128, 129, 255, 256, 257, 1000, 4097]


def cfg_text(maxboxes, maxops, view=True):
    return ('CONSTANTS\n  Pass = {"p1", "p2"}\n  Msgs = {"e", "s", "l"}\n  EmptyMsgs = {"e"}\n  MaxBoxes = %d\n  MaxOps = %d\n  WithKV = TRUE\n  WithLegacy = TRUE\n'
            "SPECIFICATION Spec\n%sINVARIANTS Authentic RoundTrip WrongKeyFails Emit\nCHECK_DEADLOCK FALSE\n" % (maxboxes, maxops, "VIEW View\n" if view else ""))


def concretise(beh, rng, sid):
    lens = {"e": 0, "s": rng.choice(SHORT), "l": rng.choice(LONG)}
    steps = []
    p1 = rng.choice(["correct horse", "p", "über-secret", "x" * 70])
    # the other passphrase: unrelated, or the same up to case / white space at the ends (still a DIFFERENT passphrase)
    p2 = rng.choice(["Correct horse", "q", "other", "x" * 71, p1 + "\n", " " + p1, p1 + " ", "\t" + p1 + "\r\n", p1.upper() if p1.upper() != p1 else p1 + "."])
    passes = {"p1": p1, "p2": p2}
    for op in beh:
        if op["op"] == "seal":
            steps.append({"op": "seal", "box": op["box"], "key": passes[op["key"]], "msg": "%s%d" % (op["msg"], lens[op["msg"]]), "fmt": op["fmt"], "via": op["via"], "len": lens[op["msg"]]})
        elif op["op"] == "damage":
            steps.append({"op": "damage", "box": op["box"], "kind": op["kind"], "pos": rng.randrange(1 << 20)})
        elif op["op"] == "open":
            steps.append({"op": "open", "box": op["box"], "key": passes[op["key"]]})
        else:
            steps.append({"op": "reseal", "box": op["box"]})
    return {"id": sid, "kind": "crypto", "features": [], "cfg": {"cols": ["a"], "log_s3": 0}, "steps": steps}


def region(pos_bit, ctlen):
    if pos_bit < 192:
        return "nonce_bit", pos_bit
    if pos_bit < 320:
        return "tag_bit", pos_bit - 192
    return "body_bit", pos_bit - 320


def sweeps(tier, rng):
    """driver-enumerated scenarios in the model's vocabulary"""
    scen = []
    right, wrong = "sweep passphrase", "sweep passphrasf"
    # (a) every plaintext length: round trip, wrong passphrase, both formats, determinism
    top = 80 if tier == "quick" else 300
    steps, box = [], 0
    for n in list(range(0, top + 1)) + [511, 512, 513, 4095, 4096, 65537]:
        for fmt in ("v1", "legacy"):
            box += 1
            steps += [{"op": "seal", "box": box, "key": right, "msg": "w%d" % n, "fmt": fmt, "via": "func", "len": n},
                      {"op": "open", "box": box, "key": right}, {"op": "open", "box": box, "key": wrong}]
            if fmt == "v1":
                steps.append({"op": "reseal", "box": box})
    scen.append({"id": "c18-lengths", "kind": "crypto", "features": [], "cfg": {"cols": ["a"], "log_s3": 0}, "steps": steps})
    # (b) every single-bit flip, (c) every truncation and a few extensions, of selected ciphertexts
    sel = [(33, "v1"), (33, "legacy")] if tier == "quick" else [(n, f) for n in (0, 1, 31, 32, 33, 70) for f in ("v1", "legacy")]
    for n, fmt in sel:
        steps, box = [], 0
        ctlen = 40 + n
        for bit in range(8 * ctlen):
            kind, pos = region(bit, ctlen)
            box += 1
            steps += [{"op": "seal", "box": box, "key": right, "msg": "f%d" % n, "fmt": fmt, "via": "func", "len": n},
                      {"op": "damage", "box": box, "kind": kind, "pos": pos}, {"op": "open", "box": box, "key": right, "pos": bit}]
        for cut in range(ctlen):
            kind, pos = ("cut_nonce", cut) if cut < 24 else (("cut_tag", cut - 24) if cut < 40 else ("cut_body", cut - 40))
            box += 1
            steps += [{"op": "seal", "box": box, "key": right, "msg": "f%d" % n, "fmt": fmt, "via": "func", "len": n},
                      {"op": "damage", "box": box, "kind": kind, "pos": pos}, {"op": "open", "box": box, "key": right, "pos": cut}]
        for ext in range(6):
            box += 1
            steps += [{"op": "seal", "box": box, "key": right, "msg": "f%d" % n, "fmt": fmt, "via": "func", "len": n},
                      {"op": "damage", "box": box, "kind": "extend", "pos": ext}, {"op": "open", "box": box, "key": right, "pos": ext}]
        scen.append({"id": "c18-flips-%d-%s" % (n, fmt), "kind": "crypto", "features": [], "cfg": {"cols": ["a"], "log_s3": 0}, "steps": steps})
    # (d) kv nodes: every damage class at several positions, wrong passphrase, legacy nodes, larger trees
    steps, box = [], 0
    for n in ([40, 900] if tier == "quick" else [1, 40, 400, 900, 5000]):
        for fmt in ("v1", "legacy"):
            for kind in ("none", "nonce_bit", "tag_bit", "body_bit", "byte_set", "cut_nonce", "cut_tag", "cut_body", "extend", "empty"):
                for rep in range(1 if tier == "quick" else 4):
                    box += 1
                    steps.append({"op": "seal", "box": box, "key": right, "msg": "k%d" % n, "fmt": fmt, "via": "kv", "len": n})
                    if kind != "none":
                        steps.append({"op": "damage", "box": box, "kind": kind, "pos": rng.randrange(1 << 20)})
                    steps += [{"op": "open", "box": box, "key": right}, {"op": "open", "box": box, "key": wrong}]
                    if kind == "none" and fmt == "v1":
                        steps.append({"op": "reseal", "box": box})
    scen.append({"id": "c18-kvnodes", "kind": "crypto", "features": [], "cfg": {"cols": ["a"], "log_s3": 0}, "steps": steps})
    return scen


def run(prop, tier):
    t0 = time.time()
    rng = random.Random(vf.seed() * 49979687 + 18)
    workdir = vf.fresh_workdir(prop, tier)
    binary = vf.build_harness()
    notes = []
    b1, d1, g1, w1 = vf.gen_behaviours(workdir, "Crypto", cfg_text(1, 4), name="gen_small", workers=8)
    notes.append("Crypto.tla 1 box, 4 operations (2 passphrases, 3 message classes, 2 formats, direct / kv, 9 damage classes), exhaustive, one history per distinct state: %d histories, %d states, %.0fs; Authentic / RoundTrip / WrongKeyFails hold" % (len(b1), d1, w1))
    nsim = 400 if tier == "quick" else 5000
    b2, d2, g2, w2 = vf.gen_behaviours(workdir, "Crypto", cfg_text(3, 9, view=False), name="gen_sim", simulate=nsim, depth=12)
    notes.append("Crypto.tla 3 boxes, 9 operations -simulate: %d histories" % len(b2))
    for n in notes:
        vf.log(n)
    if tier == "quick":
        rng.shuffle(b1)
        b1 = b1[:1500]
        b2 = b2[:400]
    scen = [concretise(b, rng, "c18-%d" % i) for i, b in enumerate(b1 + b2)]
    sw = sweeps(tier, rng)
    scen += sw
    nopen = sum(1 for s in scen for st in s["steps"] if st["op"] == "open")
    vf.log("%d model histories + %d sweep scenarios: %d opens in all" % (len(scen) - len(sw), len(sw), nopen))
    traces, info = vf.run_harness(binary, scen, workdir, shards=8)
    vf.log("executed %d scenarios in %.1fs (crashes=%d hangs=%d)" % (len(scen), info["wall"], info["crashes"], info["hangs"]))
    viols, events, mstates, mwall = vf.run_monitor(workdir, traces, [prop], module="CryptoMonitor")
    vf.log("monitor: %d events validated in %.1fs, %d raw violations" % (events, mwall, len(viols)))
    by_id = {s["id"]: s for s in scen}
    coverage = {
        "evaluations": nopen,
        "distinct_nontrivial": len({json.dumps(s["steps"], sort_keys=True) for s in scen}),
        "rule": "one evaluation = one open (Decrypt, or kv.Open + Get of every entry) of a sealed box after the recorded damages; distinct = distinct concrete scenarios",
        "samples": [scen[0], {"scenario": sw[0]["id"], "steps": sw[0]["steps"][:7]}],
        "states": d1, "transitions": g1, "traces_validated_against_impl": len(scen), "trace_events_validated": events,
        "generator_runs": notes, "harness": info, "exhaustive": False,
        "sweeps": [s["id"] for s in sw],
    }
    assumptions = [
        "byte strings are not enumerated by TLC: the model contributes the case structure (format x route x passphrase x damage class x message class) and the rule; lengths 0..N, all single-bit flips and all truncations of selected ciphertexts are enumerated by the driver, other positions are sampled",
        "confidentiality is checked as absence of any 8-byte run of the (recognisable, textual) plaintext in the stored bytes, not as a cryptographic claim",
        "legacy-format data is produced by the verif-tagged shim kv.VerifLegacyEncrypt (the hand-rolled sealing routine that is still in the tree)",
    ]
    evs = vf.load_trace(traces)
    return vf.finish(prop, tier, workdir, by_id, evs, viols, "exploration", coverage, t0, assumptions)
