"""C09 / C10: vacuum scenarios.

Vacuum.tla (content-addressed nodes, creation times, cutoffs at every tick, repeated
vacuums, two writers with unmerged and merged versions) is model-checked by TLC and its
behaviours are executed on the real code with the controllable clock (the verif hook sets
each handle's creation time), followed by observation steps; Monitor.tla evaluates
C09_* / C10_* on the recorded traces.  C09 additionally crashes the vacuuming client after
every k-th mutating request of a vacuum and checks the recovery opens.
"""
import json
import os
import random
import time

import vf


def cfg_text(writers, maxclock, maxver, maxvac, maxreopen=1, keep=True, view=True, emit=True):
    q = lambda xs: "{" + ", ".join('"%s"' % x for x in xs) + "}"
    return ("CONSTANTS\n  Writers = %s\n  Keys = {1, 2, 3}\n  Leaves = {{1, 2}, {3}}\n  MaxClock = %d\n  MaxVer = %d\n"
            "  MaxVac = %d\n  MaxReopen = %d\n  KeepRetained = %s\nSPECIFICATION Spec\n%s"
            "INVARIANTS C09_RetainedReachable C09_CurrentReachable C10_NoOldMarkers%s\nPROPERTY C09_SameRows\nCHECK_DEADLOCK FALSE\n"
            % (q(writers), maxclock, maxver, maxvac, maxreopen, "TRUE" if keep else "FALSE",
               "VIEW View\n" if view else "", " Emit" if emit else ""))


def T(clock):
    return clock * 10


def late_column_write(c, rng):
    """A deleted row whose entry is NEWER than its delete (a column written with a later write time than the DELETE's), a
    vacuum whose cutoff lies between the two times, then the key is inserted again: the table stays writable."""
    k = "i:%d" % rng.choice([90, 91])
    return [{"op": "stmt", "c": c, "id": "lc1", "kind": "ins", "key": k, "cols": {"a": "t:lc1", "b": "t:lc1"}, "wt": 961},
            {"op": "stmt", "c": c, "id": "lc2", "kind": "upd", "key": k, "cols": {"a": "t:lc2"}, "wt": 965},
            {"op": "stmt", "c": c, "id": "lc3", "kind": "del", "key": k, "cols": {}, "wt": 963},
            {"op": "rows", "c": c}, {"op": "vacuum", "c": c, "cutoff": 964}, {"op": "rows", "c": c, "same": "C09"},
            {"op": "stmt", "c": c, "id": "lc4", "kind": "ins", "key": k, "cols": {"a": "t:lc4"}, "wt": 970},
            {"op": "rows", "c": c}, {"op": "open", "c": "lcr%d" % rng.randrange(1000), "mode": "ro", "perm": rng.randrange(6)}]


def build(prop, beh, idx, rng, crash_k=None):
    epn = rng.choice([2, 2, 3, 4096])
    cache = rng.choice([0, 0, 8])
    keymap = {1: "i:1", 2: "i:2", 3: "i:3"}
    if rng.random() < 0.3:
        keymap = {1: "t:a", 2: "t:b", 3: "x:01"}
    steps = []
    feats = set()
    nst = 0
    nv = [0]
    fresh_n = [0]

    def fresh():
        fresh_n[0] += 1
        return "f%d" % fresh_n[0]

    saved = []

    def save(c):
        nv[0] += 1
        lab = "V%d" % nv[0]
        steps.append({"op": "version", "c": c, "save": lab})
        saved.append(lab)

    prefill = rng.random() < 0.5
    if prefill:
        feats.add("multilevel")
        steps += [{"op": "open", "c": "w0", "mode": "rw", "when": 1},
                  {"op": "prefill", "c": "w0", "n": rng.choice([5, 12, 30]), "base": 1000, "stride": rng.choice([1, 5]), "wt": 1}]
    nvac = sum(1 for st in beh if st["op"] == "vacuum")
    vac_seen = 0
    for st in beh:
        op = st["op"]
        if op in ("open", "refresh"):
            steps.append({"op": op, "c": st["c"], "mode": "rw", "when": T(st["when"]), "perm": rng.randrange(6)})
            save(st["c"])
        elif op == "stmt":
            nst += 1
            cols = {"a": "t:a%d" % st["wt"]} if st["kind"] == "ins" else {}
            steps.append({"op": "stmt", "c": st["c"], "id": "s%d" % nst, "kind": st["kind"], "key": keymap[st["key"]],
                          "cols": cols, "wt": T(st["wt"])})
            save(st["c"])
        elif op == "vacuum":
            vac_seen += 1
            c = st["c"]
            cutoff = T(st["cutoff"]) + (rng.choice([-5, 5]) if rng.random() < 0.3 else 0)
            steps += [{"op": "rows", "c": c}, {"op": "reach", "tag": "before"}]
            if crash_k is not None and vac_seen == nvac:
                # crash the vacuuming client after its k-th mutating request, then recover
                steps += [{"op": "plan", "c": c, "crash_after": crash_k},
                          {"op": "vacuum", "c": c, "cutoff": cutoff},
                          {"op": "heal", "c": c}, {"op": "close", "c": c},
                          {"op": "reach", "tag": "crash"},
                          {"op": "open", "c": fresh(), "mode": "ro", "perm": rng.randrange(6)},
                          {"op": "open", "c": "rec", "mode": "rw", "perm": rng.randrange(6), "when": 900},
                          {"op": "reach", "tag": "crash"},
                          {"op": "stmt", "c": "rec", "id": "rc1", "kind": "ins", "key": "i:77", "cols": {"a": "t:rec"}, "wt": 901}]
                # the recovered table is USED: every key of the history (purged ones among them) is written again
                for j, kk in enumerate(sorted(set(keymap.values()))):
                    steps.append({"op": "stmt", "c": "rec", "id": "rk%d" % j, "kind": "ins", "key": kk, "cols": {"a": "t:re%d" % j}, "wt": 902 + j})
                steps += [{"op": "open", "c": fresh(), "mode": "ro", "perm": rng.randrange(6)},
                          {"op": "rows", "c": "rec"},
                          {"op": "vacuum", "c": "rec", "cutoff": cutoff},
                          {"op": "rows", "c": "rec", "same": "C09"}, {"op": "reach", "tag": "crash"},
                          {"op": "open", "c": fresh(), "mode": "ro"}]
                feats.add("crash")
                break
            steps += [{"op": "vacuum", "c": c, "cutoff": cutoff},
                      {"op": "rows", "c": c, "same": "C09"},
                      {"op": "dump", "c": c, "tag": "vacdump"},
                      {"op": "reach", "tag": "after"},
                      {"op": "open", "c": fresh(), "mode": "ro", "perm": rng.randrange(6)}]
            for lab in saved[-4:]:
                steps.append({"op": "kvdump", "c": fresh(), "only_ref": lab})
            steps += [{"op": "vacuum", "c": c, "cutoff": cutoff, "tag": "again"},
                      {"op": "rows", "c": c, "same": "C09"}, {"op": "reach"}]
            save(c)
        else:
            raise vf.MachineryError("unknown vacuum step %r" % (st,))
    writers = sorted({st["c"] for st in beh if st["op"] in ("open", "refresh")})
    if "crash" not in feats and not prefill and rng.random() < 0.4:
        # the table is emptied: every key is deleted, a first vacuum (cutoff after the deletes, before the creation time of
        # the later versions) purges every row, a second one with a late cutoff must still reclaim the superseded versions
        steps.append({"op": "open", "c": "e1", "mode": "rw", "perm": rng.randrange(6), "when": 930})
        for j, k in enumerate(sorted(set(keymap.values()))):
            nst += 1
            steps.append({"op": "stmt", "c": "e1", "id": "e%d" % nst, "kind": "del", "key": k, "cols": {}, "wt": 932 + j})
        save("e1")
        steps += [{"op": "refresh", "c": "e1", "when": 990, "perm": rng.randrange(6)}, {"op": "rows", "c": "e1"},
                  {"op": "reach", "tag": "before"}, {"op": "vacuum", "c": "e1", "cutoff": 940},
                  {"op": "rows", "c": "e1", "same": "C09"}, {"op": "dump", "c": "e1", "tag": "vacdump"}, {"op": "reach", "tag": "after"},
                  {"op": "open", "c": fresh(), "mode": "ro", "perm": rng.randrange(6)},
                  {"op": "reach", "tag": "before"}, {"op": "vacuum", "c": "e1", "cutoff": 2000},
                  {"op": "rows", "c": "e1", "same": "C09"}, {"op": "dump", "c": "e1", "tag": "vacdump"}, {"op": "reach", "tag": "after"},
                  {"op": "vacuum", "c": "e1", "cutoff": 2000, "tag": "again"}, {"op": "reach"},
                  {"op": "stmt", "c": "e1", "id": "e%d" % (nst + 1), "kind": "ins", "key": "i:79", "cols": {"a": "t:again"}, "wt": 995},
                  {"op": "rows", "c": "e1"}, {"op": "open", "c": fresh(), "mode": "ro"}, {"op": "bucket"}]
        feats.add("emptied")
    elif "crash" not in feats and rng.random() < 0.35:
        # a fork: two handles opened on the same version both commit, a third merges them; the cutoff of the vacuum lies
        # between (or after) the creation times of the two branches: the forked version may be reclaimed only when EVERY
        # successor was created at or before the cutoff
        steps += [{"op": "open", "c": "a1", "mode": "rw", "perm": rng.randrange(6), "when": 910}]
        save("a1")
        steps += [{"op": "open", "c": "b1", "mode": "rw", "perm": rng.randrange(6), "when": 925}]
        nst += 1
        steps.append({"op": "stmt", "c": "a1", "id": "fa%d" % nst, "kind": "ins", "key": "i:81", "cols": {"a": "t:fa"}, "wt": 912})
        save("a1")
        steps.append({"op": "stmt", "c": "b1", "id": "fb%d" % nst, "kind": "ins", "key": "i:82", "cols": {"a": "t:fb"}, "wt": 927})
        save("b1")
        steps += [{"op": "open", "c": "m1", "mode": "rw", "perm": rng.randrange(6), "when": 960}, {"op": "rows", "c": "m1"},
                  {"op": "reach", "tag": "before"}, {"op": "vacuum", "c": "m1", "cutoff": rng.choice([915, 915, 924, 925, 930])},
                  {"op": "rows", "c": "m1", "same": "C09"}, {"op": "dump", "c": "m1", "tag": "vacdump"}, {"op": "reach", "tag": "after"},
                  {"op": "open", "c": fresh(), "mode": "ro", "perm": rng.randrange(6)}]
        for lab in saved[-4:]:
            steps.append({"op": "kvdump", "c": fresh(), "only_ref": lab})
        steps += [{"op": "vacuum", "c": "m1", "cutoff": 2000}, {"op": "rows", "c": "m1", "same": "C09"}, {"op": "reach"}, {"op": "bucket"}]
        feats.add("fork")
    elif "crash" not in feats:
        for wv in writers:
            nst += 1
            # a writer refreshes before it writes again after somebody's vacuum (documented usage, Vacuum.tla `stale`)
            steps += [{"op": "refresh", "c": wv, "when": 940 + nst, "perm": rng.randrange(6)},
                      {"op": "stmt", "c": wv, "id": "z%d" % nst, "kind": "ins", "key": "i:%d" % (60 + nst), "cols": {"a": "t:z"}, "wt": 950 + nst},
                      {"op": "rows", "c": wv}]
        steps += [{"op": "open", "c": "m1", "mode": "rw", "perm": rng.randrange(6), "when": 960},
                  {"op": "open", "c": fresh(), "mode": "ro", "perm": rng.randrange(6)}]
        steps += late_column_write("m1", rng)
        steps += [{"op": "vacuum", "c": "m1", "cutoff": 2000}, {"op": "rows", "c": "m1", "same": "C09"},
                  {"op": "dump", "c": "m1", "tag": "vacdump"}, {"op": "reach"},
                  {"op": "open", "c": fresh(), "mode": "ro"}, {"op": "bucket"}]
    if cache > 0:
        feats.add("node_cache")
    if 0 < epn <= 4:
        feats.add("small_epn")
    return {"id": "%s-%d%s" % (prop.lower(), idx, "" if crash_k is None else "-k%d" % crash_k), "kind": "seq", "features": sorted(feats),
            "cfg": {"cols": ["a", "b"], "epn": epn, "cache": cache, "log_nodes": 0, "log_reads": 0}, "steps": steps}


def generate(workdir, prop, tier, rng):
    behs, states, trans, notes = [], 0, 0, []
    seen = set()

    def add(b, cap, need_vac=True):
        got = []
        for x in b:
            k = json.dumps(x, sort_keys=True)
            if k in seen:
                continue
            if need_vac and not any(st["op"] == "vacuum" for st in x):
                continue
            seen.add(k)
            got.append(x)
        rng.shuffle(got)
        behs.extend(got[:cap])

    # exhaustive with VIEW: one behaviour per distinct final state of the 1-writer model
    b, d, g, w = vf.gen_behaviours(workdir, "Vacuum", cfg_text(["w1"], 4, 5, 2), name="gen_small", timeout=1500)
    notes.append("Vacuum 1 writer, 3 keys/2 leaves, clock<=4, <=5 versions, <=2 vacuums, exhaustive (one path per distinct final state): %d behaviours, %d distinct states, %.0fs" % (len(b), d, w))
    states += d
    trans += g
    add(b, 350 if tier == "quick" else 6000)
    nsim = 150 if tier == "quick" else 2500
    b, d, g, w = vf.gen_behaviours(workdir, "Vacuum", cfg_text(["w1", "w2"], 5, 7, 2, maxreopen=2, view=False), name="gen_sim",
                                   simulate=nsim, depth=40)
    notes.append("Vacuum 2 writers, clock<=5, <=7 versions -simulate: %d behaviours, %.0fs" % (len(b), w))
    states += d
    trans += g
    add(b, 350 if tier == "quick" else 6000)
    scen = [build(prop, x, i, rng) for i, x in enumerate(behs)]
    ncrash = 0
    if prop in ("C09", "C04"):
        # crash-point enumeration inside vacuum for a subset of the behaviours
        sub = behs[:: max(1, len(behs) // (25 if tier == "quick" else 300))]
        for j, x in enumerate(sub):
            for k in range(0, 9 if prop == "C09" else 13):
                scen.append(build(prop, x, 100000 + j, rng, crash_k=k))
                ncrash += 1
    notes.append("%d crash-point scenarios (k = 0..8 mutating requests into the last vacuum)" % ncrash)
    return scen, states, trans, notes


def run(prop, tier):
    t0 = time.time()
    rng = random.Random(vf.seed() * 104729 + int(prop[1:]))
    workdir = vf.fresh_workdir(prop, tier)
    binary = vf.build_harness()
    scen, states, trans, notes = generate(workdir, prop, tier, rng)
    vf.log("; ".join(notes))
    traces, info = vf.run_harness(binary, scen, workdir)
    vf.log("executed %d scenarios in %.1fs (crashes=%d hangs=%d)" % (len(scen), info["wall"], info["crashes"], info["hangs"]))
    viols, events, mstates, mwall = vf.run_monitor(workdir, traces, [prop])
    vf.log("monitor: %d events validated in %.1fs, %d raw violations" % (events, mwall, len(viols)))
    by_id = {s["id"]: s for s in scen}
    sample = scen[0]
    coverage = {
        "states": states, "transitions": trans, "traces_validated_against_impl": len(scen), "trace_events_validated": events,
        "samples": [{"scenario": sample["id"], "features": sample["features"], "cfg": sample["cfg"], "steps": sample["steps"][:16]}],
        "evaluations": len(scen),
        "distinct_nontrivial": len({json.dumps(s["steps"], sort_keys=True) for s in scen if any(st["op"] == "vacuum" for st in s["steps"])}),
        "rule": "one execution per distinct TLC behaviour of Vacuum.tla that contains a vacuum (plus crash-point variants for C09); non-trivial = distinct step sequences containing at least one vacuum",
        "generator_runs": notes, "harness": info, "exhaustive": False,
    }
    assumptions = [
        "fake object store with strong consistency; creation times of versions imposed through the verif hook (kv.VerifMergeRoots)",
        "no writer commits concurrently with a vacuum from a version the vacuum is about to reclaim (the documented usage: the cutoff is older than any in-flight writer)",
        "what vacuum may forget is Rows!Purge: all statements of keys whose latest INSERT/DELETE is a DELETE older than the cutoff",
    ]
    evs = vf.load_trace(traces)
    return vf.finish(prop, tier, workdir, by_id, evs, viols, "model_checking", coverage, t0, assumptions)
