"""C01 / C02 (and the C13, C15-retry riders): multi-writer merge scenarios.

TLC enumerates (exhaustive, small) and samples (-simulate, larger) behaviours of
S3db.tla: writers executing INSERT/UPDATE/DELETE with arbitrary write times,
refreshing from each other at arbitrary points, read-write opens that commit
partial merges, with a chosen permutation of the version list at every open.
Each behaviour is executed on the real code; an observation epilogue opens
read-only readers with every permutation of the final listing, a read-write
merger, and repeated read-write opens of the then quiescent bucket.  The
recorded trace is validated by Monitor.tla (Ideal oracle, reader-vs-reader
equality, fixpoint).
"""
import itertools
import json
import os
import random
import time

import vf

KEY_POOLS = [
    ["i:1", "i:2", "i:3"],
    ["t:k1", "t:k2", "t:k3"],
    ["i:-5", "r:3ff8000000000000", "t:zz"],      # -5 < 1.5 < 'zz'
    ["x:00", "x:6162", "x:ff"],
    ["r:c000000000000000", "i:7", "x:"],          # -2.0 < 7 < x''
]


def cfg_text(clients, keys, maxtime, maxstmts, maxopens, maxperm, partial=True, withtx=False, emit=True, maxtx=2):
    q = lambda xs: "{" + ", ".join('"%s"' % x for x in xs) + "}"
    return (
        "CONSTANTS\n  Clients = %s\n  Keys = %s\n  Cols = {\"a\", \"b\"}\n  MaxTime = %d\n  MaxStmts = %d\n"
        "  MaxOpens = %d\n  MaxPerm = %d\n  Partial = %s\n  WithTx = %s\n  MaxTx = %d\n"
        "SPECIFICATION Spec\nINVARIANTS TypeOK C03_NothingLost C01_ViewIsClosure C05_NoLeak DistinctTimes%s\n"
        "PROPERTY C11_Immutable\nCHECK_DEADLOCK FALSE\n"
        % (q(clients), q(keys), maxtime, maxstmts, maxopens, maxperm,
           "TRUE" if partial else "FALSE", "TRUE" if withtx else "FALSE", maxtx, " Emit" if emit else ""))


def canon(beh):
    """Canonical form of a behaviour under renaming of clients (symmetry)."""
    names = {}
    out = []
    for st in beh:
        st = dict(st)
        c = st.get("c")
        if c is not None:
            if c not in names:
                names[c] = "w%d" % (len(names) + 1)
            st["c"] = names[c]
        if "cs" in st:
            st["cs"] = sorted(st["cs"])
        out.append(st)
    return json.dumps(out, sort_keys=True)


def features_of(beh):
    f = set()
    bykey = {}
    for st in beh:
        if st.get("op") == "stmt":
            bykey.setdefault(st["key"], []).append(st)
    writers = {st["c"] for st in beh if st.get("op") == "stmt"}
    if len(writers) > 1:
        f.add("multi_writer")
    for k, sts in bykey.items():
        kinds = [s["kind"] for s in sts]
        if "del" in kinds and len(sts) > 1:
            f.add("delete_and_other_write_same_key")
        if any(s["kind"] == "upd" and len(s["cs"]) < 2 for s in sts):
            f.add("partial_update")
        wts = [s["wt"] for s in sts]
        for c in {s["c"] for s in sts}:
            mine = [s["wt"] for s in sts if s["c"] == c]
            if any(mine[i] > mine[i + 1] for i in range(len(mine) - 1)):
                f.add("older_write_same_writer")
        if kinds.count("ins") > 1:
            f.add("reinsert")
    if any(st.get("op") == "refresh" for st in beh):
        f.add("refresh")
    if any(st.get("op") in ("begin", "commit", "rollback") for st in beh):
        f.add("tx")
    return sorted(f)


def concretise(beh, idx, rng, tag):
    pool = KEY_POOLS[rng.randrange(len(KEY_POOLS))] if rng.random() < 0.5 else KEY_POOLS[0]
    keymap = {"k1": pool[0], "k2": pool[1], "k3": pool[2]}
    epn = rng.choice([2, 2, 3, 4096])
    cache = rng.choice([0, 0, 8])
    steps = []
    nst = 0
    writers = []
    for st in beh:
        op = st["op"]
        if op in ("open", "refresh"):
            steps.append({"op": op, "c": st["c"], "mode": st.get("mode", "rw"), "perm": st.get("perm", 0)})
            if st["c"] not in writers:
                writers.append(st["c"])
        elif op == "stmt":
            nst += 1
            cols = {c: "t:%s%d" % (c, st["wt"]) for c in st["cs"]}
            steps.append({"op": "stmt", "c": st["c"], "id": "s%d" % nst, "kind": st["kind"], "key": keymap[st["key"]],
                          "cols": cols, "wt": st["wt"], "intx": st.get("intx", 0)})
        elif op in ("begin", "commit", "rollback"):
            steps.append({"op": op, "c": st["c"]})
        else:
            raise vf.MachineryError("unknown step in behaviour: %r" % (st,))
    # observation epilogue
    for w in writers:
        steps.append({"op": "rows", "c": w})
    for p in range(6):
        steps.append({"op": "open", "c": "r%d" % p, "mode": "ro", "perm": p})
    steps.append({"op": "open", "c": "m1", "mode": "rw", "perm": rng.randrange(6), "fix": 1})
    steps.append({"op": "open", "c": "r6", "mode": "ro", "perm": rng.randrange(6)})
    steps.append({"op": "open", "c": "m2", "mode": "rw", "perm": rng.randrange(6), "fix": 2})
    steps.append({"op": "open", "c": "m3", "mode": "rw", "perm": rng.randrange(6), "fix": 3})
    steps.append({"op": "open", "c": "m4", "mode": "rw", "perm": rng.randrange(6), "fix": 4})
    steps.append({"op": "open", "c": "r7", "mode": "ro", "perm": rng.randrange(6)})
    # stale descendants: the bucket now holds one merged version; every writer carries on from its OLD handle (no
    # refresh) with a write to an unrelated key, so its new version descends from a version that is already merged;
    # every fold order of {merged version, stale descendants} must give the same, Ideal, table
    if len(writers) > 1:
        for j, w in enumerate(writers[:3]):
            nst += 1
            steps.append({"op": "stmt", "c": w, "id": "s%d" % nst, "kind": "ins", "key": "i:%d" % (7700 + j), "cols": {"a": "t:late%d" % j}, "wt": 60 + j, "intx": 0})
        for p in range(6):
            steps.append({"op": "open", "c": "q%d" % p, "mode": "ro", "perm": p})
        steps.append({"op": "open", "c": "m5", "mode": "rw", "perm": rng.randrange(6)})
        steps.append({"op": "open", "c": "q6", "mode": "ro", "perm": rng.randrange(6)})
    for w in writers[:2]:
        steps.append({"op": "refresh", "c": w, "perm": rng.randrange(6)})
    steps.append({"op": "bucket"})
    return {"id": "%s-%d" % (tag, idx), "kind": "seq", "features": features_of(beh),
            "cfg": {"cols": ["a", "b"], "epn": epn, "cache": cache, "log_nodes": 0, "log_reads": 0}, "steps": steps}


def rowapi_scenarios(workdir, tier, rng, tag="ra"):
    """Every behaviour of the exhaustive single-writer configuration (1 key, 5 write times, 5 statements, all
    orders), executed through the exported Go API of the s3db package (no SQLite): one implementation run per
    behaviour of the model."""
    b, d, g, w = vf.gen_behaviours(workdir, "S3db", cfg_text(["w1"], ["k1"], 5, 5, 0, 1), name="gen_single5", timeout=900)
    note = "S3db single writer, 1 key, 5 times, 5 stmts, exhaustive: %d behaviours, %d distinct states, %.0fs (all executed through the Go API)" % (len(b), d, w)
    scen = []
    idxs = list(range(len(b)))
    if tier == "quick":
        rng.shuffle(idxs)
        idxs = sorted(idxs[:12000])
        note += "; quick tier: %d of them, sampled by seed" % len(idxs)
    for i in idxs:
        beh = b[i]
        steps = []
        n = 0
        for st in beh:
            if st["op"] != "stmt":
                continue
            n += 1
            steps.append({"op": "stmt", "c": "w", "id": "s%d" % n, "kind": st["kind"], "key": "i:1",
                          "cols": {c: "t:%s%d" % (c, st["wt"]) for c in st["cs"]}, "wt": st["wt"]})
            if n >= 3:
                steps.append({"op": "rows", "c": "w"})
        scen.append({"id": "%s-%d" % (tag, i), "kind": "rowapi", "features": ["rowapi"],
                     "cfg": {"cols": ["a", "b"], "epn": 0, "log_s3": 0}, "steps": steps})
    return scen, d, g, note


def rowmerge_scenarios(workdir, tier, rng, tag="rm"):
    """Statement sequences of 2-3 writers (TLC behaviours of S3db.tla without refreshes; only the statements and who
    issues them are used): every writer works on its own handle opened on the empty bucket, then read-only handles
    merge the writers' versions in every fold order. Registers are recorded for RowsMonitor.tla (strict conformance of
    Rows!MergeEntry); Monitor.tla ignores these scenarios."""
    scen, notes, states, trans = [], [], 0, 0
    seen = set()
    for name, clients, mt, ms in (("gen_rm2", ["w1", "w2"], 4, 4), ("gen_rm3", ["w1", "w2", "w3"], 3, 3)):
        b, d, g, w = vf.gen_behaviours(workdir, "S3db", cfg_text(clients, ["k1"], mt, ms, 0, 1), name=name, timeout=1800)
        notes.append("S3db %d writers, 1 key, %d times, %d stmts, no refresh, exhaustive: %d behaviours, %d distinct states, %.0fs" % (len(clients), mt, ms, len(b), d, w))
        states += d
        trans += g
        cand = []
        for beh in b:
            sts = [st for st in beh if st["op"] == "stmt"]
            if len({st["c"] for st in sts}) < 2:
                continue
            k = canon(sts)
            if k in seen:
                continue
            seen.add(k)
            cand.append(sts)
        rng.shuffle(cand)
        if tier == "quick":
            cand = cand[:1500]
        for sts in cand:
            steps = []
            for n, st in enumerate(sts):
                steps.append({"op": "stmt", "c": st["c"], "id": "s%d" % (n + 1), "kind": st["kind"], "key": "i:1",
                              "cols": {c: "t:%s%d" % (c, st["wt"]) for c in st["cs"]}, "wt": st["wt"]})
            nw = len({st["c"] for st in sts})
            for p in range(2 if nw == 2 else 6):
                steps.append({"op": "merge", "c": "m%d" % p, "perm": p})
            scen.append({"id": "%s-%d" % (tag, len(scen)), "kind": "rowmerge", "features": ["rowmerge"],
                         "cfg": {"cols": ["a", "b"], "epn": 0, "log_s3": 0}, "steps": steps})
    return scen, states, trans, notes


def generate(workdir, tier, rng):
    """Return (scenarios, spec_states, spec_transitions, notes)."""
    behs = []
    states = trans = 0
    notes = []
    # exhaustive small scope: 2 writers, 1 key, 2 columns, 3 times, 3 statements, all refresh points, 2 permutations
    b, d, g, w = vf.gen_behaviours(workdir, "S3db", cfg_text(["w1", "w2"], ["k1"], 3, 3, 2, 2), name="gen_small")
    notes.append("S3db_merge_small exhaustive: %d behaviours, %d distinct states, %.0fs" % (len(b), d, w))
    states += d
    trans += g
    seen = set()
    small = []
    for x in b:
        c = canon(x)
        if c not in seen:
            seen.add(c)
            small.append(x)
    n_small = len(small)
    if tier == "quick":
        rng.shuffle(small)
        small = small[:1500]
    behs += small
    # exhaustive: one writer, every order of 4 write times over 4 statements on one key
    b, d, g, w = vf.gen_behaviours(workdir, "S3db", cfg_text(["w1"], ["k1"], 4, 4, 0, 1), name="gen_single")
    notes.append("S3db single writer, 1 key, 4 times, 4 stmts, exhaustive: %d behaviours, %d distinct states, %.0fs" % (len(b), d, w))
    states += d
    trans += g
    single = []
    for x in b:
        c = canon(x)
        if c not in seen:
            seen.add(c)
            single.append(x)
    rng.shuffle(single)
    behs += single[:(500 if tier == "quick" else 4000)]
    # simulated larger scope: 3 writers, 2 keys, 5 times, 5 statements, 3 refreshes, 6 permutations
    nsim = 200 if tier == "quick" else 3000
    b, d, g, w = vf.gen_behaviours(workdir, "S3db", cfg_text(["w1", "w2", "w3"], ["k1", "k2"], 5, 5, 3, 6),
                                   name="gen_sim", simulate=nsim, depth=40)
    notes.append("S3db_merge_large -simulate: %d behaviours, %.0fs" % (len(b), w))
    states += d
    trans += g
    sim = []
    for x in b:
        c = canon(x)
        if c not in seen:
            seen.add(c)
            sim.append(x)
    rng.shuffle(sim)
    behs += sim[:(1500 if tier == "quick" else 30000)]
    if tier == "thorough":
        # exhaustive mid scope: 3 writers, 1 key, 3 times, 3 statements, one refresh, 2 permutations (measured: 711 369
        # behaviours, 778 858 states, 83 s; 4 times x 4 statements exceeds 1 GiB of TLC output)
        b, d, g, w = vf.gen_behaviours(workdir, "S3db", cfg_text(["w1", "w2", "w3"], ["k1"], 3, 3, 1, 2), name="gen_mid", timeout=3000)
        notes.append("S3db_merge_mid exhaustive: %d behaviours, %d distinct states, %.0fs" % (len(b), d, w))
        states += d
        trans += g
        mid = []
        for x in b:
            c = canon(x)
            if c not in seen:
                seen.add(c)
                mid.append(x)
        rng.shuffle(mid)
        behs += mid[:40000]
    scen = [concretise(x, i, rng, "mrg") for i, x in enumerate(behs)]
    ra, d, g, note = rowapi_scenarios(workdir, tier, rng)
    notes.append(note)
    states += d
    trans += g
    scen += ra
    return scen, states, trans, notes, n_small


def run(prop, tier):
    t0 = time.time()
    rng = random.Random(vf.seed())
    workdir = vf.fresh_workdir(prop, tier)
    binary = vf.build_harness()
    scen, states, trans, notes, n_small = generate(workdir, tier, rng)
    vf.log("; ".join(notes))
    trace, info = vf.run_harness(binary, scen, workdir)
    vf.log("executed %d scenarios in %.1fs (crashes=%d hangs=%d)" % (len(scen), info["wall"], info["crashes"], info["hangs"]))
    viols, events, mstates, mwall = vf.run_monitor(workdir, trace, [prop])
    vf.log("monitor: %d events validated in %.1fs, %d raw violations" % (events, mwall, len(viols)))
    strict = None
    if prop == "C02":
        rm, d2, g2, n2 = rowmerge_scenarios(workdir, tier, rng)
        rtrace, rinfo = vf.run_harness(binary, rm, workdir, name="rowmerge")
        notes += n2
        vf.log("; ".join(n2) + "; %d writer/merge scenarios executed in %.1fs (crashes=%d)" % (len(rm), rinfo["wall"], rinfo["crashes"]))
        msv, _, _, mswall = vf.run_monitor(workdir, rtrace, [prop], module="RowsMonitor", name="strictm")
        mevs = vf.load_trace(rtrace)
        # strict conformance of the register-level transcription (Rows.tla, mode "fixed") on the single-writer histories
        # executed through the Go API: a statement about the specification's fidelity, never a verdict
        sv, _, _, swall = vf.run_monitor(workdir, trace, [prop], module="RowsMonitor", name="strict")
        evs0 = vf.load_trace(trace)
        strict = {"model": "Rows!ApplyLocal, mode fixed (the code with repairs R1-R3)", "trace_validator": "spec/RowsMonitor.tla",
                  "statements_replayed": sum(1 for e in evs0 if e.get("ev") == "stmt" and e.get("api") == 1),
                  "register_dumps_compared": sum(1 for e in evs0 if e.get("ev") == "regs"),
                  "mismatches": len(sv), "first_mismatches": sv[:2], "wall_s": round(swall + mswall, 1),
                  "merge_scenarios": len(rm), "merges_compared": sum(1 for e in mevs if e.get("ev") == "mregs"),
                  "merge_statements_replayed": sum(1 for e in mevs if e.get("ev") == "stmt"),
                  "merge_mismatches": len(msv), "first_merge_mismatches": msv[:2],
                  "note": "mismatches are reported here and never as violations: the properties speak about visible rows"}
        vf.log("strict register conformance (RowsMonitor): %d statements, %d register dumps, %d mismatches; %d merges of 2-3 writers' versions in every fold order, %d mismatches"
               % (strict["statements_replayed"], strict["register_dumps_compared"], len(sv), strict["merges_compared"], len(msv)))
    by_id = {s["id"]: s for s in scen}
    sigs = {json.dumps(s["steps"], sort_keys=True) for s in scen}
    nontrivial = sum(1 for s in scen if "multi_writer" in s["features"])
    sample = scen[0]
    coverage = {
        "states": states, "transitions": trans,
        "traces_validated_against_impl": len(scen),
        "trace_events_validated": events,
        "samples": [{"scenario": sample["id"], "features": sample["features"], "cfg": sample["cfg"],
                     "steps": sample["steps"][:12]}],
        "evaluations": len(scen), "distinct_nontrivial": nontrivial,
        "rule": "one execution per distinct TLC behaviour of S3db.tla (distinct up to renaming of writers); non-trivial = statements issued by >= 2 writers",
        "generator_runs": notes,
        "distinct_scenarios": len(sigs),
        "harness": info,
        "exhaustive": False,
    }
    if strict:
        coverage["strict_register_conformance"] = strict
    assumptions = [
        "fake object store with strong read-after-write and list-after-write consistency",
        "version order at every open imposed through the verif hook kv.VerifMergeRoots",
        "write times on one key pairwise distinct (precondition of the property)",
        "Ideal (Rows.tla) is the reading of the README rule that decides expected rows",
    ]
    evs = vf.load_trace(trace)
    return vf.finish(prop, tier, workdir, by_id, evs, viols, "model_checking", coverage, t0, assumptions)
