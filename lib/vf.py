"""Shared machinery of the /verif checks.

spec (TLA+)  --TLC-->  behaviours  --concretise-->  scenarios  --vharness (real code)-->
NDJSON trace  --TLC Monitor-->  violations  -->  VIOLATION / KNOWN-FINDING lines + evidence

Exit codes of a check: 0 = property held on everything explored, 1 = violation,
2 = machinery error (never a verdict).
"""
import json
import os
import re
import shutil
import subprocess
import sys
import time

ROOT = os.path.dirname(os.path.dirname(os.path.abspath(__file__)))
SPEC = os.path.join(ROOT, "spec")
HARNESS = os.path.join(ROOT, "harness")
# VERIF_REPO / VERIF_OUT / VERIF_EVID redirect a run to another checkout of jrhy/s3db and to private output
# directories (used only to try seeded changes in scratch worktrees, in parallel with normal runs).
OUT = os.environ.get("VERIF_OUT", os.path.join(ROOT, "out"))
EVID = os.environ.get("VERIF_EVID", os.path.join(ROOT, "evidence"))
REPO = os.environ.get("VERIF_REPO", "/repo")
KNOWN = os.path.join(ROOT, "KNOWN_FINDINGS.txt")


class MachineryError(Exception):
    pass


def log(*a):
    print("[verif]", *a, file=sys.stderr, flush=True)


def seed():
    try:
        return int(os.environ.get("VERIF_SEED", "1"))
    except ValueError:
        return 1


def fresh_workdir(prop, tier):
    """empty scratch directory of this run (stale traces / TLC output of earlier runs must not be mistaken for this one's)"""
    d = os.path.join(OUT, prop, tier)
    if os.path.isdir(d):
        shutil.rmtree(d)
    os.makedirs(d)
    return d


def goenv():
    env = dict(os.environ)
    env["GOFLAGS"] = "-mod=mod"
    env["GOPROXY"] = "off"
    env.pop("GOTOOLCHAIN", None)
    env.pop("GOSUMDB", None)
    env.setdefault("HOME", "/root")
    return env


def build_harness(race=False):
    """Rebuild the harness against the current working tree of /repo."""
    os.makedirs(os.path.join(OUT, "bin"), exist_ok=True)
    hdir = HARNESS
    if REPO != "/repo":
        # private copy of the harness module whose replace directive points at the other checkout
        hdir = os.path.join(OUT, "harness-src")
        if os.path.isdir(hdir):
            shutil.rmtree(hdir)
        shutil.copytree(HARNESS, hdir, ignore=shutil.ignore_patterns("vharness*", "go.sum"))
        gm = open(os.path.join(hdir, "go.mod")).read()
        gm = re.sub(r"replace github.com/jrhy/s3db => \S+", "replace github.com/jrhy/s3db => " + REPO, gm)
        open(os.path.join(hdir, "go.mod"), "w").write(gm)
    shutil.copyfile(os.path.join(REPO, "go.sum"), os.path.join(hdir, "go.sum"))
    out = os.path.join(OUT, "bin", "vharness-race" if race else "vharness")
    cmd = ["go", "build", "-tags", "verif"] + (["-race"] if race else []) + ["-o", out, "."]
    t0 = time.time()
    p = subprocess.run(cmd, cwd=hdir, env=goenv(), capture_output=True, text=True)
    if p.returncode != 0:
        raise MachineryError("harness build failed (the tree under %s may not compile):\n%s" % (REPO, p.stderr[-3000:]))
    log("built %s in %.1fs" % (out, time.time() - t0))
    return out


# --------------------------------------------------------------------------- TLC

def tlc_dir(workdir, name):
    d = os.path.join(workdir, name)
    if os.path.isdir(d):
        shutil.rmtree(d)
    os.makedirs(d)
    for f in os.listdir(SPEC):
        if f.endswith(".tla"):
            shutil.copyfile(os.path.join(SPEC, f), os.path.join(d, f))
    return d


TLC_CP = "/opt/veriftools/tla/tla2tools.jar:/opt/veriftools/tla/CommunityModules-deps.jar"


def run_tlc(d, module, args, timeout=1800, heap="8g"):
    cmd = ["java", "-XX:+UseParallelGC", "-Xmx" + heap, "-Xss64m", "-cp", TLC_CP, "tlc2.TLC",
           "-metadir", os.path.join(d, "md")] + args + [module + ".tla"]
    t0 = time.time()
    outp = os.path.join(d, "tlc.out")
    with open(outp, "w") as fo:
        try:
            p = subprocess.run(cmd, cwd=d, stdout=fo, stderr=subprocess.STDOUT, timeout=timeout)
        except subprocess.TimeoutExpired:
            raise MachineryError("TLC timed out after %ds in %s" % (timeout, d))
    if os.path.getsize(outp) > (1 << 30):
        raise MachineryError("TLC output larger than 1 GiB in %s (bound the generator)" % d)
    return open(outp).read(), p.returncode, time.time() - t0


def tlc_stats(out):
    m = re.search(r"(\d+) states generated, (\d+) distinct states found", out)
    if not m:
        return 0, 0
    return int(m.group(2)), int(m.group(1))


def tlc_ok(out):
    return "Model checking completed. No error has been found." in out or "Finished in" in out and "Error:" not in out


def gen_behaviours(workdir, module, cfg_text, name="gen", simulate=None, workers=8, timeout=1800, depth=60, pre=None):
    """Run TLC on a generator/model spec; return (behaviours, distinct, generated, wall).
    Each behaviour is the JSON value printed by PrintT(<<"BEHAVIOUR", ToJson(hist)>>)."""
    d = tlc_dir(workdir, name)
    open(os.path.join(d, module + ".cfg"), "w").write(cfg_text)
    for fn, text in (pre or {}).items():
        open(os.path.join(d, fn), "w").write(text)
    args = ["-workers", str(workers)]
    if simulate:
        # num is per worker; one worker keeps the output deterministic for a seed
        args = ["-workers", "1", "-simulate", "num=%d" % simulate, "-depth", str(depth), "-seed", str(seed())]
    out, rc, wall = run_tlc(d, module, args, timeout)
    if "Error:" in out and "BEHAVIOUR" not in out:
        raise MachineryError("TLC failed on %s:\n%s" % (module, out[-3000:]))
    if re.search(r"Invariant .* is violated|Error: .*violated|Error: TLC threw", out):
        raise MachineryError("TLC reported a specification-level error on %s (design finding, not a verdict):\n%s" % (module, out[-3000:]))
    behs = []
    for m in re.finditer(r'<<"BEHAVIOUR", "((?:[^"\\]|\\.)*)">>', out):
        s = json.loads('"' + m.group(1) + '"')
        behs.append(json.loads(s))
    distinct, generated = tlc_stats(out)
    if simulate and distinct == 0:
        # simulation mode reports differently
        m = re.search(r"(\d+) states checked", out)
        generated = int(m.group(1)) if m else len(behs)
        distinct = generated
    return behs, distinct, generated, wall


def run_monitor(workdir, traces, props, colseq=("a", "b"), name="mon", module="Monitor", timeout=3600, extra_consts=""):
    """Validate NDJSON traces with TLC (one TLC process per trace file, in parallel).
    Returns (violations, events, states, wall)."""
    import concurrent.futures
    if isinstance(traces, str):
        traces = [traces]
    t0 = time.time()
    traces = _split_traces(workdir, traces, name)
    with concurrent.futures.ThreadPoolExecutor(max_workers=min(12, len(traces))) as ex:
        futs = [ex.submit(_run_monitor1, workdir, t, props, colseq, "%s%d" % (name, i), module, timeout, extra_consts)
                for i, t in enumerate(traces)]
        res = [f.result() for f in futs]
    viols, events, states = [], 0, 0
    for v, e, st in res:
        viols += v
        events += e
        states += st
    return viols, events, states, time.time() - t0


MAX_TRACE_EVENTS = int(os.environ.get("VERIF_MAX_TRACE", "50000"))   # TLC handles behaviours of at most 65535 states; one state per trace line


def _split_traces(workdir, traces, name):
    """Split trace files that are too long for one TLC behaviour at scenario boundaries (reset events)."""
    out = []
    for ti, t in enumerate(traces):
        n = sum(1 for _ in open(t))
        if n <= MAX_TRACE_EVENTS:
            out.append(t)
            continue
        part, cnt, k = [], 0, 0
        cur = []   # lines of the current scenario

        def flush_part():
            nonlocal part, cnt, k
            if part:
                pth = os.path.join(workdir, "%s.split%d_%d.ndjson" % (name, ti, k))
                open(pth, "w").write("".join(part))
                out.append(pth)
                k += 1
                part, cnt = [], 0
        for line in open(t):
            if '"ev":"reset"' in line and cur:
                if cnt + len(cur) > MAX_TRACE_EVENTS:
                    flush_part()
                part += cur
                cnt += len(cur)
                cur = []
            cur.append(line)
        if cnt + len(cur) > MAX_TRACE_EVENTS:
            flush_part()
        part += cur
        cnt += len(cur)
        flush_part()
    return out


def _run_monitor1(workdir, trace, props, colseq, name, module, timeout, extra_consts):
    d = tlc_dir(workdir, name)
    shutil.copyfile(trace, os.path.join(d, "trace.ndjson"))
    mc = module + "MC"
    open(os.path.join(d, mc + ".tla"), "w").write(
        "---- MODULE %s ----\nEXTENDS %s\nColSeqV == <<%s>>\nPropsV == {%s}\n====\n"
        % (mc, module, ", ".join('"%s"' % c for c in colseq), ", ".join('"%s"' % p for p in props)))
    open(os.path.join(d, mc + ".cfg"), "w").write(
        'CONSTANTS\n  TraceFile = "trace.ndjson"\n  ColSeq <- ColSeqV\n  Props <- PropsV\n%s'
        "SPECIFICATION Spec\nINVARIANT Report\nPOSTCONDITION TraceAccepted\nCHECK_DEADLOCK FALSE\n" % extra_consts)
    out, rc, wall = run_tlc(d, mc, ["-workers", "1"], timeout, heap="3g")
    m = re.search(r'<<"MONITOR", "((?:[^"\\]|\\.)*)">>', out)
    if not m or "Model checking completed. No error has been found." not in out:
        raise MachineryError("trace validation did not complete (spec/trace mismatch is a machinery error):\n%s" % out[-4000:])
    rep = json.loads(json.loads('"' + m.group(1) + '"'))
    distinct, generated = tlc_stats(out)
    return rep["violations"], rep["events"], distinct


# --------------------------------------------------------------------------- harness

def run_harness(binary, scenarios, workdir, name="run", timeout_per=120, shards=None):
    """Execute scenarios on the real code, in parallel shards (one process each).
    Returns (list_of_trace_paths, info)."""
    import concurrent.futures
    os.makedirs(workdir, exist_ok=True)
    n = len(scenarios)
    if shards is None:
        shards = max(1, min(12, n // 40))
    chunks = [scenarios[i::shards] for i in range(shards)]
    t0 = time.time()
    info = {"crashes": 0, "hangs": 0, "wall": 0.0, "shards": shards}
    with concurrent.futures.ThreadPoolExecutor(max_workers=shards) as ex:
        futs = [ex.submit(_run_shard, binary, chunks[i], workdir, "%s%d" % (name, i), timeout_per) for i in range(shards)]
        res = [f.result() for f in futs]
    traces = []
    for t, inf in res:
        traces.append(t)
        info["crashes"] += inf["crashes"]
        info["hangs"] += inf["hangs"]
    info["wall"] = time.time() - t0
    return traces, info


def _run_shard(binary, scenarios, workdir, name, timeout_per):
    sfile = os.path.join(workdir, name + ".scenarios.ndjson")
    tfile = os.path.join(workdir, name + ".trace.ndjson")
    with open(sfile, "w") as f:
        for s in scenarios:
            f.write(json.dumps(s, separators=(",", ":")) + "\n")
    if os.path.exists(tfile):
        os.remove(tfile)
    skip = 0
    info = {"crashes": 0, "hangs": 0}
    n = len(scenarios)
    guard = 0
    while skip < n:
        guard += 1
        if guard > 2 * n + 5:
            raise MachineryError("harness restart loop")
        try:
            p = subprocess.run([binary, "-scenarios", sfile, "-out", tfile, "-skip", str(skip)],
                               capture_output=True, text=True, timeout=min(7200, max(600, timeout_per * (n - skip))))
        except subprocess.TimeoutExpired:
            raise MachineryError("harness timed out")
        if p.returncode == 0:
            break
        if p.returncode == 4:
            # the next scenario asked for a fresh process: restart after the last completed one
            last_end = 0
            with open(tfile) as f:
                for line in f:
                    if '"ev":"end"' in line.replace(" ", ""):
                        last_end = json.loads(line)["idx"]
            if last_end < skip:
                raise MachineryError("fresh-process restart made no progress")
            skip = last_end
            continue
        # the process died inside a scenario: find it
        last_reset, ended = None, True
        with open(tfile) as f:
            for line in f:
                try:
                    e = json.loads(line)
                except ValueError:
                    continue  # torn last line
                if e.get("ev") == "reset":
                    last_reset, ended = e, False
                elif e.get("ev") == "end":
                    ended = True
        if last_reset is None or ended:
            raise MachineryError("harness died outside a scenario (rc=%d): %s" % (p.returncode, p.stderr[-2000:]))
        _truncate_torn(tfile)
        kind = "hang" if p.returncode == 3 else "panic"
        info["hangs" if kind == "hang" else "crashes"] += 1
        with open(tfile, "a") as f:
            if kind == "panic":
                msg = p.stderr[-1500:]
                f.write(json.dumps({"ev": "panic", "sc": last_reset["sc"], "seq": 0, "op": "process", "step": -1,
                                    "msg": "%sprocess died rc=%d: %s" % ("DATA RACE reported by the race detector; " if p.returncode == 66 else "", p.returncode, msg)}) + "\n")
            f.write(json.dumps({"ev": "end", "sc": last_reset["sc"], "seq": 0, "idx": last_reset["idx"], "completed": False}) + "\n")
        skip = last_reset["idx"]
    _renumber(tfile)
    return tfile, info


def _truncate_torn(path):
    data = open(path, "rb").read()
    if data and not data.endswith(b"\n"):
        data = data[: data.rfind(b"\n") + 1]
        open(path, "wb").write(data)


def _renumber(path):
    lines = open(path).read().splitlines()
    out = []
    for i, line in enumerate(lines):
        e = json.loads(line)
        if "cseq" in e and e.get("seq"):
            e["cseq"] = (i + 1) - (e["seq"] - e["cseq"])
        e["seq"] = i + 1
        out.append(json.dumps(e, separators=(",", ":")))
    open(path, "w").write("\n".join(out) + "\n")


def load_trace(paths):
    if isinstance(paths, str):
        paths = [paths]
    res = []
    for p in paths:
        res += [json.loads(l) for l in open(p) if l.strip()]
    return res


# --------------------------------------------------------------------------- known findings

def load_known():
    """KNOWN_FINDINGS.txt lines:
       finding: property=C02 id=KF-x pred=<predicate> [feature=<f>]* [detail~<regex>] -- text
       fixed: property=C16 <commit> <what failed>
    """
    res = []
    if not os.path.exists(KNOWN):
        return res
    for line in open(KNOWN):
        line = line.strip()
        if not line.startswith("finding:"):
            continue
        body, _, text = line[len("finding:"):].partition(" -- ")
        kf = {"features": [], "text": text.strip(), "detail": None}
        for tok in body.split():
            if tok.startswith("detail~"):
                kf["detail"] = tok[len("detail~"):]
            elif tok.startswith("pred~"):
                kf["pred_re"] = tok[len("pred~"):]
            elif "=" in tok:
                k, v = tok.split("=", 1)
                if k == "feature":
                    kf["features"].append(v)
                else:
                    kf[k] = v
        res.append(kf)
    return res


def match_known(kfs, prop, viol, features):
    for kf in kfs:
        if prop not in kf.get("property", "").split(","):
            continue
        if kf.get("pred") and kf["pred"] != viol.get("pred"):
            continue
        if kf.get("pred_re") and not re.fullmatch(kf["pred_re"], viol.get("pred", "")):
            continue
        if any(f not in features for f in kf["features"]):
            continue
        if kf["detail"] and not re.search(kf["detail"], json.dumps(viol.get("detail"), sort_keys=True)):
            continue
        return kf
    return None


# --------------------------------------------------------------------------- reporting

def write_evidence(prop, tier, level, coverage, wall, violations, assumptions):
    os.makedirs(EVID, exist_ok=True)
    ev = {"property_id": prop, "tier": tier, "seed": seed(), "level": level, "coverage": coverage,
          "assumptions": assumptions, "wall_s": round(wall, 2), "violations": violations}
    tmp = os.path.join(EVID, prop + ".json.tmp")
    json.dump(ev, open(tmp, "w"), indent=1, sort_keys=True)
    os.replace(tmp, os.path.join(EVID, prop + ".json"))


MONITOR_OF = {"C17": "KVMonitor", "C18": "CryptoMonitor", "C20": "CreateMonitor"}


def finish(prop, tier, workdir, scen_by_id, trace_events, violations, level, coverage, t0, assumptions, extra_known_features=None):
    """Classify violations (known finding vs new), write replay files, evidence, print lines, return exit code."""
    kfs = load_known()
    new, known = [], {}
    rdir = os.path.join(workdir, "replay")
    if os.path.isdir(rdir):
        shutil.rmtree(rdir)
    os.makedirs(rdir)
    by_sc = {}
    for e in trace_events:
        by_sc.setdefault(e.get("sc"), []).append(e)
    for v in violations:
        if v.get("prop") != prop:
            continue
        sc = scen_by_id.get(v["sc"], {})
        feats = set(sc.get("features", []))
        kf = match_known(kfs, prop, v, feats)
        if kf:
            known.setdefault(kf["id"], []).append(v)
        else:
            new.append(v)
    # one replay file per violating scenario (first violation of that scenario)
    seen = set()
    lines = []
    for v in new:
        if v["sc"] in seen:
            continue
        seen.add(v["sc"])
        path = os.path.join(rdir, re.sub(r"[^A-Za-z0-9_.-]", "_", str(v["sc"])) + ".json")
        sc0 = scen_by_id.get(v["sc"]) or {}
        json.dump({"property": prop, "violation": v, "scenario": scen_by_id.get(v["sc"]),
                   "monitor": MONITOR_OF.get(prop, "Monitor"), "race": prop == "C19",
                   "colseq": (sc0.get("cfg") or {}).get("cols", ["a", "b"]),
                   "events": by_sc.get(v["sc"], [])[:400]}, open(path, "w"), indent=1)
        lines.append("VIOLATION property=%s replay=%s" % (prop, path))
    for kid, vs in sorted(known.items()):
        kf = [k for k in kfs if k["id"] == kid][0]
        print("KNOWN-FINDING: property=%s %s: %s (%d occurrences in this run, e.g. scenario %s)"
              % (prop, kid, kf["text"], len(vs), vs[0]["sc"]))
    for l in lines[:50]:
        print(l)
    coverage = dict(coverage)
    coverage["violating_scenarios_new"] = len(seen)
    coverage["known_finding_occurrences"] = {k: len(v) for k, v in known.items()}
    write_evidence(prop, tier, level, coverage, time.time() - t0, len(seen), assumptions)
    if lines:
        for v in new[:3]:
            log("violation:", json.dumps(v)[:1500])
    sys.stdout.flush()
    return 1 if lines else 0
