"""C06: a single-writer table behaves like the same table in plain SQLite.

Table.tla generates every program of mutating statements (single-key and range INSERT/UPDATE/DELETE, refused
INSERTs, BEGIN/COMMIT/ROLLBACK, re-open points) over NKeys key positions up to MaxOps operations.  Each program is
executed on an s3db table and on a native WITHOUT ROWID table of the same connection; after every step a sample of
key-predicate queries, and at the end EVERY window query (all lower/upper bounds on keys and in every gap, both
directions, LIMIT, count/min/max, =, IN, BETWEEN, plus non-key constraints and compound ORDER BY) is run on both.
Monitor.tla requires equal outcomes and equal results (as sequences where the order is specified).
"""
import json
import os
import random
import struct
import time

import vf


def r(x):
    return "r:%016x" % struct.unpack(">Q", struct.pack(">d", x))[0]


# each pool: 9 literals strictly ascending in SQLite's order; keys sit at the odd indices, the even ones are "gaps"
POOLS = [
    ["i:0", "i:10", "i:15", "i:20", "i:25", "i:30", "i:35", "i:40", "i:45"],
    ["i:-100", "i:-5", r(-4.5), "i:-1", r(0.5), "i:1", r(1.5), "i:2", r(2.25)],
    ["i:-3", r(-2.5), "i:-2", r(0.25), r(0.5), r(1e10), "i:20000000000", r(1e300), r(float("inf"))],
    ["t:", "t:a", "t:aa", "t:ab", "t:abc", "t:b", "t:b\u00e9", "t:c", "t:\u4e2d"],
    ["x:", "x:00", "x:0001", "x:01", "x:61", "x:ff", "x:ff00", "x:ffff", "x:ffffff"],
    ["i:-1", "i:7", r(7.5), "t:x", "t:y", "x:00", "x:01", "x:02", "x:03"],
    ["i:-9223372036854775808", "i:-9223372036854775807", "i:0", "i:9007199254740993", "i:9007199254740994",
     "i:9223372036854775806", "i:9223372036854775807", r(9.3e18), r(1e19)],
    [r(float("-inf")), r(-1e308), r(-1.5), r(-1.0000000000000002), r(-1.0), r(5e-324), r(1e-300), r(3.0000000000000004), "t:0"],
    ["i:100", "i:101", "i:102", "i:103", "i:104", "i:105", "i:106", "i:107", "i:108"],
]
VALUES = ["i:1", "i:-7", r(2.5), "t:v", "t:w\u00e9", "x:00ff", "x:", "i:9223372036854775807", r(1e-320)]


def queries(pool, npos, rng, full):
    qs = []
    bounds = [None] + list(range(npos))

    def add(where, args, order, limit=None, agg=None):
        what = {"count": "count(*)", "min": "min(k)", "max": "max(k)", None: "k, a, b"}[agg]
        q = "select %s from {T}" % what
        if where:
            q += " where " + where
        if order:
            q += " order by k " + order
        if limit is not None:
            q += " limit %d" % limit
        qs.append({"op": "sql", "c": "w", "kind": "query", "q": q, "args": args, "ordered": 1 if (order or agg) else 0})

    wins = []
    for lo in bounds:
        for los in (">", ">="):
            for hi in bounds:
                for his in ("<", "<="):
                    if lo is None and los == ">=":
                        continue
                    if hi is None and his == "<=":
                        continue
                    wins.append((lo, los, hi, his))
    if not full:
        wins = rng.sample(wins, 14)
    elif len(wins) > 250:
        wins = rng.sample(wins, 250)
    for (lo, los, hi, his) in wins:
        conds, args = [], []
        if lo is not None:
            conds.append("k %s ?" % los)
            args.append(pool[lo])
        if hi is not None:
            conds.append("k %s ?" % his)
            args.append(pool[hi])
        w = " and ".join(conds)
        if full:
            add(w, args, "asc")
            add(w, args, "desc")
            add(w, args, None, agg=rng.choice(["count", "min", "max"]))
            if rng.random() < 0.5:
                add(w, args, rng.choice(["asc", "desc"]), limit=rng.choice([1, 2]))
        else:
            add(w, args, rng.choice(["asc", "desc", None]), limit=rng.choice([None, None, 1, 2]))
    for p in (range(npos) if full else rng.sample(range(npos), 3)):
        add("k = ?", [pool[p]], None)
        add("k = ?", [pool[p]], "desc")
    # IN, BETWEEN, reversed bound order, redundant bounds
    a, b, c = rng.sample(range(npos), 3)
    add("k in (?, ?, ?)", [pool[a], pool[b], pool[c]], "asc")
    add("k in (?, ?, ?)", [pool[a], pool[b], pool[c]], "desc")
    lo, hi = sorted((a, b))
    add("k between ? and ?", [pool[lo], pool[hi]], "desc")
    add("k between ? and ?", [pool[hi], pool[lo]], "asc")
    add("k > ? and k > ? and k < ?", [pool[lo], pool[min(lo + 1, npos - 1)], pool[hi]], "asc")
    add("? < k and ? >= k", [pool[lo], pool[hi]], "desc")
    # two bounds on the same side with the same value and different strictness, equality combined with a bound:
    # the cursor's own window must be as tight as the tightest constraint (SQLite may not re-check)
    for p in (range(npos) if full else rng.sample(range(npos), 2)):
        add("k <= ? and k < ?", [pool[p], pool[p]], rng.choice(["asc", None]))
        add("k >= ? and k > ?", [pool[p], pool[p]], rng.choice(["asc", None]))
        add("k < ? and k <= ?", [pool[p], pool[p]], None, agg="count")
        add("k > ? and k >= ?", [pool[p], pool[p]], None, agg="count")
        add("k = ? and k < ?", [pool[p], pool[p]], None)
        add("k = ? and k >= ?", [pool[p], pool[p]], None)
        add("k = ? and k = ?", [pool[p], pool[(p + 1) % npos]], None)
    # two bounds on the same side with DIFFERENT values, every strictness combination, looser-first and tighter-first;
    # equality / IN combined with a looser bound
    for _ in range(npos if full else 3):
        p, q = sorted(rng.sample(range(npos), 2))
        for (o1, o2) in (("<", "<="), ("<=", "<"), ("<", "<"), ("<=", "<=")):
            add("k %s ? and k %s ?" % (o1, o2), [pool[q], pool[p]], rng.choice(["asc", "desc", None]))
            if full or rng.random() < 0.5:
                add("k %s ? and k %s ?" % (o1, o2), [pool[p], pool[q]], None, agg="count")
        for (o1, o2) in ((">", ">="), (">=", ">"), (">", ">"), (">=", ">=")):
            add("k %s ? and k %s ?" % (o1, o2), [pool[p], pool[q]], rng.choice(["asc", "desc", None]))
            if full or rng.random() < 0.5:
                add("k %s ? and k %s ?" % (o1, o2), [pool[q], pool[p]], None, agg="count")
        add("k > ? and k = ?", [pool[p], pool[q]], None)
        add("k < ? and k = ?", [pool[q], pool[p]], None)
        add("k < ? and k in (?, ?)", [pool[q], pool[p], pool[q]], "asc")
        add("k >= ? and k between ? and ?", [pool[p], pool[p], pool[q]], "desc")
    add("k > NULL", [], "asc")
    add("k <= NULL", [], "desc")
    add(None, [], None)
    add(None, [], "desc", limit=2)
    add(None, [], None, agg="count")
    add(None, [], None, agg="min")
    add(None, [], None, agg="max")
    # key constraint combined with a non-key constraint, compound orderings
    v = rng.choice(VALUES)
    qs.append({"op": "sql", "c": "w", "kind": "query", "q": "select k, a, b from {T} where a = ? and k > ? order by k", "args": [v, pool[lo]], "ordered": 1})
    qs.append({"op": "sql", "c": "w", "kind": "query", "q": "select k, a, b from {T} where k <= ? and b is null order by k desc", "args": [pool[hi]], "ordered": 1})
    qs.append({"op": "sql", "c": "w", "kind": "query", "q": "select k, a, b from {T} order by k, a", "args": [], "ordered": 1})
    qs.append({"op": "sql", "c": "w", "kind": "query", "q": "select k, a, b from {T} order by typeof(a), k desc", "args": [], "ordered": 1})
    qs.append({"op": "sql", "c": "w", "kind": "query", "q": "select typeof(k), typeof(a), typeof(b), k from {T} order by k", "args": [], "ordered": 1})
    return qs


def build(beh, idx, rng, nkeys):
    if nkeys > 4:
        # many keys: integer or text positions, deep trees
        if rng.random() < 0.7:
            pool = ["i:%d" % (7 * p - 40) for p in range(2 * nkeys + 2)]
        else:
            pool = ["t:k%03d" % p for p in range(2 * nkeys + 2)]
    else:
        pool = POOLS[rng.randrange(len(POOLS))]
    npos = 2 * nkeys + 1 + 1
    pool = pool[:npos] if len(pool) >= npos else pool
    npos = len(pool)
    key = lambda k: pool[2 * k - 1]
    posv = lambda p: pool[min(p, npos - 1)]
    epn = rng.choice([2, 3, 4, 16, 4096, 0]) if nkeys <= 4 else rng.choice([2, 2, 3, 4])
    cache = rng.choice([0, 0, 8])
    use_wt = rng.random() < 0.7
    steps = [{"op": "open", "c": "w", "mode": "rw", "shadow": 1}]
    if 0 < epn <= 16 and rng.random() < 0.6:
        # rows that only make the tree deep (the same rows in the native table): integer keys that interleave with, but
        # never equal, the numeric keys of the pools; with them the root node has children on both sides
        base, stride = rng.choice([(-90011, 6007), (-611, 67), (-1013, 67), (-1500007, 100003), (-611, 6007)])   # (checked: no collision with a pool key)
        steps.append({"op": "prefill", "c": "w", "n": rng.choice([12, 25, 60]), "base": base, "stride": stride, "wt": 0})
    wt = [0]

    def sql(q, args, kind="exec"):
        wt[0] += 1
        st = {"op": "sql", "c": "w", "kind": kind, "q": q, "args": args}
        if use_wt:
            st["wt"] = wt[0]
        steps.append(st)

    for st in beh:
        op = st["op"]
        a, b = rng.choice(VALUES), rng.choice(VALUES + ["NULL"])
        if op == "ins":
            sql("insert into {T} (k, a, b) values (?, ?, ?)", [key(st["k"]), a, b])
        elif op == "insnullkey":
            sql("insert into {T} (k, a, b) values (NULL, ?, ?)", [a, b])
        elif op == "insnullcol":
            sql("insert into {T} (k, a, b) values (?, NULL, ?)", [posv(rng.randrange(npos)), b])
        elif op == "upd":
            if rng.random() < 0.5:
                sql("update {T} set a = ? where k = ?", [a, key(st["k"])])
            else:
                sql("update {T} set b = ?, a = ? where k = ?", [b, a, key(st["k"])])
        elif op == "del":
            sql("delete from {T} where k = ?", [key(st["k"])])
        elif op == "delrange":
            sql("delete from {T} where k >= ? and k < ?", [posv(st["lo"]), posv(st["hi"])])
        elif op == "updrange":
            sql("update {T} set b = ? where k > ? and k <= ?", [b, posv(st["lo"]), posv(st["hi"])])
        elif op == "reopen":
            steps.append({"op": "reopen", "c": "w"})
        elif op in ("begin", "commit", "rollback"):
            steps.append({"op": "sql", "c": "w", "kind": "exec", "q": op, "args": []})
        else:
            raise vf.MachineryError("unknown table op %r" % (st,))
        if op not in ("begin",):
            steps += queries(pool, npos, rng, full=False)
    steps.append({"op": "reopen", "c": "w"})
    steps += queries(pool, npos, rng, full=True)
    feats = set()
    if 0 < epn <= 4:
        feats.add("small_epn")
    if cache > 0:
        feats.add("node_cache")
    if any("desc" in s.get("q", "") for s in steps):
        feats.add("desc")
    if any(lit == "t:" for s in steps for lit in s.get("args", [])) or "t:" in pool:
        feats.add("empty_text")
    return {"id": "c06-%d" % idx, "kind": "seq", "features": sorted(feats),
            "cfg": {"cols": ["a", "b"], "colspec": "k primary key, a not null, b", "shadow_colspec": "k primary key, a not null, b",
                    "epn": epn, "cache": cache, "log_s3": 0, "shadow": 1}, "steps": steps}


def cfg_text(nkeys, maxops, withtx=True, emit=True):
    return ("CONSTANTS NKeys = %d  MaxOps = %d  WithTx = %s\nSPECIFICATION Spec\nINVARIANTS ScanSound C05_CommittedWhenIdle%s\nCHECK_DEADLOCK FALSE\n"
            % (nkeys, maxops, "TRUE" if withtx else "FALSE", " Emit" if emit else ""))


def run(prop, tier):
    t0 = time.time()
    rng = random.Random(vf.seed() * 49979687 + 6)
    workdir = vf.fresh_workdir(prop, tier)
    binary = vf.build_harness()
    notes = []
    states = trans = 0
    b, d, g, w = vf.gen_behaviours(workdir, "Table", cfg_text(3, 3), name="gen_small", timeout=900)
    notes.append("Table 3 keys (7 bound positions), <=3 mutating statements with BEGIN/COMMIT/ROLLBACK and re-opens, exhaustive: %d programs, %d distinct states, %.0fs" % (len(b), d, w))
    states += d
    trans += g
    rng.shuffle(b)
    behs = [(x, 3) for x in b[:(220 if tier == "quick" else 5000)]]
    b, d, g, w = vf.gen_behaviours(workdir, "Table", cfg_text(4, 8), name="gen_sim", simulate=(40 if tier == "quick" else 600), depth=30)
    notes.append("Table 4 keys, 8 statements -simulate: %d programs, %.0fs" % (len(b), w))
    states += d
    trans += g
    rng.shuffle(b)
    behs += [(x, 4) for x in b[:(120 if tier == "quick" else 3000)]]
    b, d, g, w = vf.gen_behaviours(workdir, "Table", cfg_text(12, 16, withtx=False), name="gen_big", simulate=(25 if tier == "quick" else 300), depth=40)
    notes.append("Table 12 keys (26 bound positions), 16 statements -simulate: %d programs, %.0fs" % (len(b), w))
    states += d
    trans += g
    rng.shuffle(b)
    behs += [(x, 12) for x in b[:(60 if tier == "quick" else 1500)]]
    scen = [build(x, i, rng, nk) for i, (x, nk) in enumerate(behs)]
    vf.log("; ".join(notes))
    traces, info = vf.run_harness(binary, scen, workdir)
    vf.log("executed %d programs in %.1fs (crashes=%d hangs=%d)" % (len(scen), info["wall"], info["crashes"], info["hangs"]))
    viols, events, mstates, mwall = vf.run_monitor(workdir, traces, [prop], colseq=("a", "b"))
    vf.log("monitor: %d events validated in %.1fs, %d raw violations" % (events, mwall, len(viols)))
    by_id = {s["id"]: s for s in scen}
    nq = sum(1 for s in scen for st in s["steps"] if st.get("kind") == "query")
    sample = scen[0]
    coverage = {
        "evaluations": nq + sum(1 for s in scen for st in s["steps"] if st.get("kind") == "exec"),
        "distinct_nontrivial": len({json.dumps([st.get("q"), st.get("args")]) for s in scen for st in s["steps"] if st.get("kind") == "query"}),
        "rule": "programs = TLC behaviours of Table.tla (exhaustive small scope, sampled; simulated larger scope), concretised over 9 key pools of all storage classes x entries_per_node {2,3,4,16,4096,default} x cache {0,8}; evaluations = statements + queries executed on both tables; distinct = distinct (query text, arguments)",
        "samples": [{"scenario": sample["id"], "cfg": sample["cfg"], "steps": sample["steps"][:8]}],
        "states": states, "transitions": trans, "traces_validated_against_impl": len(scen), "trace_events_validated": events,
        "programs": len(scen), "queries": nq, "generator_runs": notes, "harness": info, "exhaustive": False,
    }
    assumptions = [
        "the bundled SQLite's native WITHOUT ROWID table (same connection, same column constraints, no declared types) is the reference",
        "UPDATEs that change the key and OR IGNORE / OR REPLACE are not generated (outside the property)",
        "write times are non-decreasing (explicit increasing write_time, or the default clock)",
    ]
    evs = vf.load_trace(traces)
    return vf.finish(prop, tier, workdir, by_id, evs, viols, "exploration", coverage, t0, assumptions)
