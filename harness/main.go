package main

// vharness: executes scenarios (one JSON object per line) against the real
// jrhy/s3db code (SQLite + extension + kv) on the fake object store and writes
// an NDJSON trace. Verdicts are not computed here; the trace is validated by
// TLC against the TLA+ specification.

import (
	"bufio"
	"encoding/json"
	"flag"
	"fmt"
	"os"
	"runtime"
	"time"
)

func main() {
	os.Setenv("AWS_REGION", "dummy")
	os.Setenv("AWS_ACCESS_KEY_ID", "dummy")
	os.Setenv("AWS_SECRET_ACCESS_KEY", "dummy")
	// the sandbox sets AWS_CA_BUNDLE, which makes the AWS SDK itself race when sessions are created concurrently
	os.Unsetenv("AWS_CA_BUNDLE")
	in := flag.String("scenarios", "", "scenario file (NDJSON)")
	out := flag.String("out", "", "trace file (NDJSON, appended)")
	skip := flag.Int("skip", 0, "skip this many scenarios")
	flag.Parse()
	if *in == "" || *out == "" {
		fmt.Fprintln(os.Stderr, "usage: vharness -scenarios f -out f [-skip n]")
		os.Exit(2)
	}
	fi, err := os.Open(*in)
	if err != nil {
		fmt.Fprintln(os.Stderr, err)
		os.Exit(2)
	}
	fo, err := os.OpenFile(*out, os.O_APPEND|os.O_CREATE|os.O_WRONLY, 0o644)
	if err != nil {
		fmt.Fprintln(os.Stderr, err)
		os.Exit(2)
	}
	tr := NewTracer(fo)
	installHooks()
	sc := bufio.NewScanner(fi)
	sc.Buffer(make([]byte, 1<<20), 1<<26)
	n, ran := 0, 0
	for sc.Scan() {
		line := sc.Bytes()
		if len(line) == 0 {
			continue
		}
		n++
		if n <= *skip {
			continue
		}
		var s Scenario
		if err := json.Unmarshal(line, &s); err != nil {
			fmt.Fprintf(os.Stderr, "scenario %d: %v\n", n, err)
			os.Exit(2)
		}
		if s.Cfg.num("fresh_process", 0) == 1 && ran > 0 {
			// this scenario needs a process that has done nothing yet (process-wide lazily created state)
			tr.Flush()
			fo.Close()
			os.Exit(4)
		}
		ran++
		runScenario(tr, &s, n)
		tr.Flush()
	}
	tr.Flush()
	fo.Close()
}

func runScenario(tr *Tracer, s *Scenario, idx int) {
	tr.ResetMaps(s.ID)
	feats := s.Features
	if feats == nil {
		feats = []string{}
	}
	cfg := map[string]interface{}{"_": 0}
	for k, v := range s.Cfg {
		cfg[k] = v
	}
	tr.Emit(map[string]interface{}{"ev": "reset", "idx": idx, "kind": s.Kind, "features": feats, "cfg": cfg})
	tr.Flush()
	ok := true
	switch s.Kind {
	case "", "seq":
		e := NewExec(tr, s)
		ok = e.RunSeq()
		e.Close()
	case "sched":
		ok = runSched(tr, s)
	case "rowapi":
		ok = runRowAPI(tr, s)
	case "rowmerge":
		ok = runRowMerge(tr, s)
	case "threads":
		ok = runThreads(tr, s)
	case "kv":
		ok = runKV(tr, s)
	case "crypto":
		ok = runCrypto(tr, s)
	case "order":
		ok = runOrder(tr, s)
	default:
		fmt.Fprintf(os.Stderr, "unknown scenario kind %q\n", s.Kind)
		os.Exit(2)
	}
	// run finalizers now so that a finalizer panic is attributed to this scenario
	runtime.GC()
	time.Sleep(3 * time.Millisecond)
	runtime.GC()
	time.Sleep(2 * time.Millisecond)
	tr.Emit(map[string]interface{}{"ev": "end", "idx": idx, "completed": ok})
}
