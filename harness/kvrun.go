package main

// kvrun.go: scenarios executed directly on the kv package (kv.Open with the
// fake store; no hook needed). Every call and every read is logged; the
// expectations are computed by TLC (KVMonitor.tla) from the same events.

import (
	"context"
	"fmt"
	"sort"
	"time"

	"github.com/jrhy/s3db/kv"
	crdtpub "github.com/jrhy/s3db/kv/crdt"
)

type kvHandle struct {
	db *kv.DB
}

func runKV(tr *Tracer, s *Scenario) (ok bool) {
	e := NewExec(tr, s)
	defer e.Close()
	ok = true
	ctx := context.Background()
	hs := map[string]*kvHandle{}
	mode := s.Cfg.str("mode")
	e.st.gobRoots = s.Cfg.num("gob", 0) == 1
	conflicts := 0
	cfgFor := func(id string) kv.Config {
		c := kv.Config{
			Storage:    &kv.S3BucketInfo{EndpointURL: "http://" + id, BucketName: e.st.name, Prefix: e.prefix},
			KeysLike:   "key",
			ValuesLike: "value",
		}
		if bf := s.Cfg.num("epn", 0); bf > 0 {
			c.BranchFactor = uint(bf)
		}
		switch mode {
		case "conflict":
			c.OnConflictMerged = func(key, v1, v2 interface{}) error { conflicts++; return nil }
		case "custom":
			c.CustomMerge = func(key interface{}, v1, v2 crdtpub.Value) crdtpub.Value {
				conflicts++
				return *crdtpub.LastWriteWins(&v1, &v2)
			}
		}
		return c
	}
	tok := func(t int) time.Time { return TokTime(t) }
	vtoks := func(db *kv.DB) []string {
		names, err := db.Roots()
		res := []string{}
		if err != nil {
			return []string{"?dirty"}
		}
		for _, n := range names {
			res = append(res, tr.VersionToken(n))
		}
		sort.Strings(res)
		return res
	}
	for i, st := range s.Steps {
		id := st.str("h")
		emit := func(ev string, m map[string]interface{}) {
			m["ev"], m["h"], m["step"] = ev, id, i
			tr.Emit(m)
		}
		errOut := func(err error) (string, string) { return classifyErr(err), errStr(err) }
		func() {
			defer func() {
				if r := recover(); r != nil {
					emit("panic", map[string]interface{}{"op": "kv-" + st.str("op"), "c": id, "msg": fmt.Sprintf("%v", r)})
					ok = false
				}
			}()
			h := hs[id]
			switch st.str("op") {
			case "open":
				fc := e.st.Client(id)
				db, err := kv.Open(ctx, fc, cfgFor(id), kv.OpenOptions{ReadOnly: st.num("ro", 0) == 1}, tok(st.num("when", 100+i)))
				o, es := errOut(err)
				m := map[string]interface{}{"outcome": o, "err": es, "ro": st.num("ro", 0), "merged": []string{}}
				if err == nil {
					hs[id] = &kvHandle{db: db}
					m["merged"] = vtoks(db)
				}
				emit("kv_open", m)
			case "set":
				val := fmt.Sprintf("v%d", st.num("t", 0))
				if st.has("val") {
					val = st.str("val")
				}
				err := h.db.Set(ctx, tok(st.num("t", 0)), st.str("k"), val)
				o, es := errOut(err)
				emit("kv_set", map[string]interface{}{"k": st.str("k"), "t": st.num("t", 0), "val": val, "outcome": o, "err": es})
			case "tomb":
				err := h.db.Tombstone(ctx, tok(st.num("t", 0)), st.str("k"))
				o, es := errOut(err)
				emit("kv_tomb", map[string]interface{}{"k": st.str("k"), "t": st.num("t", 0), "outcome": o, "err": es})
			case "rmtomb":
				err := h.db.RemoveTombstones(ctx, tok(st.num("before", 0)))
				o, es := errOut(err)
				emit("kv_rmtomb", map[string]interface{}{"before": st.num("before", 0), "outcome": o, "err": es})
			case "commit":
				name, err := h.db.Commit(ctx)
				o, es := errOut(err)
				v := "-"
				if err == nil && name != nil {
					v = tr.VersionToken(*name)
				}
				emit("kv_commit", map[string]interface{}{"version": v, "outcome": o, "err": es})
			case "close":
				if h != nil {
					h.db.Cancel()
					delete(hs, id)
				}
				emit("kv_close", map[string]interface{}{})
			case "clone":
				c2, err := h.db.Clone(ctx)
				o, es := errOut(err)
				if err == nil {
					hs[st.str("h2")] = &kvHandle{db: c2}
				}
				emit("kv_clone", map[string]interface{}{"h2": st.str("h2"), "outcome": o, "err": es})
			case "get":
				var v string
				found, err := h.db.Get(ctx, st.str("k"), &v)
				o, es := errOut(err)
				if !found {
					v = "-"
				}
				tomb, terr := h.db.IsTombstoned(ctx, st.str("k"))
				if terr != nil {
					o, es = errOut(terr)
				}
				emit("kv_get", map[string]interface{}{"k": st.str("k"), "found": found, "val": v, "tombstoned": tomb, "outcome": o, "err": es})
			case "dump":
				ents := []interface{}{}
				cur, err := h.db.Cursor(ctx)
				if err == nil {
					err = cur.Min(ctx)
				}
				var last string
				sorted := true
				for err == nil {
					k, v, more := cur.Get()
					if !more {
						break
					}
					ks := k.(string)
					if last != "" && ks <= last {
						sorted = false
					}
					last = ks
					val := "-"
					if sv, isStr := v.Value.(string); isStr && !v.Tombstoned() {
						val = sv
					}
					prev := "-"
					if v.PreviousRoot != "" {
						prev = tr.VersionToken(v.PreviousRoot)
					}
					tomb := 0
					if v.Tombstoned() {
						tomb = tr.TimeToken(time.Unix(0, v.TombstoneSinceEpochNanos))
					}
					ents = append(ents, map[string]interface{}{"k": ks, "mod": tr.TimeToken(time.Unix(0, v.ModEpochNanos)), "tomb": tomb, "val": val, "prev": prev})
					err = cur.Forward(ctx)
				}
				o, es := errOut(err)
				emit("kv_dump", map[string]interface{}{"entries": ents, "sorted": sorted, "size": int(h.db.Size()), "dirty": h.db.IsDirty(), "outcome": o, "err": es})
			case "diff":
				from := hs[st.str("from")]
				items := []interface{}{}
				var fromDB *kv.DB
				if from != nil {
					fromDB = from.db
				}
				err := h.db.Diff(ctx, fromDB, func(key, mine, theirs interface{}) (bool, error) {
					f := func(x interface{}) string {
						if x == nil {
							return "-"
						}
						return fmt.Sprintf("%v", x)
					}
					items = append(items, []string{key.(string), f(mine), f(theirs)})
					return true, nil
				})
				o, es := errOut(err)
				emit("kv_diff", map[string]interface{}{"from": st.str("from"), "items": items, "outcome": o, "err": es})
			case "trace":
				items := []interface{}{}
				err := h.db.TraceHistory(ctx, st.str("k"), time.Time{}, func(when time.Time, value interface{}) (bool, error) {
					v := "-"
					if sv, isStr := value.(string); isStr {
						v = sv
					}
					items = append(items, []interface{}{tr.TimeToken(when), v})
					return true, nil
				})
				o, es := errOut(err)
				emit("kv_trace", map[string]interface{}{"k": st.str("k"), "items": items, "outcome": o, "err": es})
			default:
				panic("unknown kv op " + st.str("op"))
			}
		}()
	}
	tr.Emit(map[string]interface{}{"ev": "kv_done", "conflicts": conflicts})
	for _, h := range hs {
		h.db.Cancel()
	}
	return ok
}
