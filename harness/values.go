package main

import (
	"encoding/hex"
	"fmt"
	"math"
	"strconv"
	"strings"
	"unicode/utf8"
)

// Typed literals used in scenarios and traces:
//   NULL | i:<decimal> | r:<16 hex digits of the IEEE bits> | t:<text> | x:<hex> | u:<hex>
// (u: = TEXT whose bytes are not valid UTF-8, which t: cannot carry through JSON)

func parseLit(s string) (interface{}, error) {
	switch {
	case s == "NULL":
		return nil, nil
	case strings.HasPrefix(s, "i:"):
		v, err := strconv.ParseInt(s[2:], 10, 64)
		return v, err
	case strings.HasPrefix(s, "r:"):
		u, err := strconv.ParseUint(s[2:], 16, 64)
		if err != nil {
			return nil, err
		}
		return math.Float64frombits(u), nil
	case strings.HasPrefix(s, "t:"):
		return s[2:], nil
	case strings.HasPrefix(s, "u:"):
		b, err := hex.DecodeString(s[2:])
		if err != nil {
			return nil, err
		}
		return string(b), nil
	case strings.HasPrefix(s, "x:"):
		b, err := hex.DecodeString(s[2:])
		if err != nil {
			return nil, err
		}
		if b == nil {
			b = []byte{}
		}
		return b, nil
	}
	return nil, fmt.Errorf("bad literal %q", s)
}

func mustLit(s string) interface{} {
	v, err := parseLit(s)
	if err != nil {
		panic(err)
	}
	return v
}

func fmtLit(v interface{}) string {
	switch x := v.(type) {
	case nil:
		return "NULL"
	case int64:
		return "i:" + strconv.FormatInt(x, 10)
	case int:
		return "i:" + strconv.Itoa(x)
	case float64:
		return fmt.Sprintf("r:%016x", math.Float64bits(x))
	case string:
		if !utf8.ValidString(x) {
			return "u:" + hex.EncodeToString([]byte(x))
		}
		return "t:" + x
	case []byte:
		return "x:" + hex.EncodeToString(x)
	case bool:
		if x {
			return "i:1"
		}
		return "i:0"
	}
	return fmt.Sprintf("?:%T:%v", v, v)
}

// sqlLit renders a literal as SQL text (used where parameters cannot be bound).
func sqlLit(s string) string {
	v := mustLit(s)
	switch x := v.(type) {
	case nil:
		return "NULL"
	case int64:
		return strconv.FormatInt(x, 10)
	case float64:
		if math.IsInf(x, 1) {
			return "9e999"
		}
		if math.IsInf(x, -1) {
			return "-9e999"
		}
		return strconv.FormatFloat(x, 'e', -1, 64)
	case string:
		if !utf8.ValidString(x) {
			return "cast(x'" + hex.EncodeToString([]byte(x)) + "' as text)"
		}
		return "'" + strings.ReplaceAll(x, "'", "''") + "'"
	case []byte:
		return "x'" + hex.EncodeToString(x) + "'"
	}
	panic("sqlLit")
}
