package main

// threads.go: m connections, each on its own goroutine with its own SQLite
// connection and s3db table(s), run their statement streams concurrently with
// no scheduling at all (C19). Built with -race by the C19 check: a data race
// kills the process (GORACE halt_on_error) and is recorded by the orchestrator.

import (
	"fmt"
	"os"
	"runtime/debug"
	"sort"
	"sync"
	"time"
)

func runThreads(tr *Tracer, s *Scenario) bool {
	base := NewExec(tr, s)
	defer base.Close()
	ids := []string{}
	for id := range s.Clients {
		ids = append(ids, id)
	}
	sort.Strings(ids)
	samePrefix := s.Cfg.num("same_prefix", 1) == 1
	base.inmem = s.Cfg.num("inmem", 0) == 1
	var wg sync.WaitGroup
	okAll := true
	var mu sync.Mutex
	execs := []*Exec{}
	for _, id := range ids {
		ex := *base
		ex.clients = map[string]*cli{}
		ex.saved = map[string][]string{}
		ex.snaps = map[string]map[string][]byte{}
		if !samePrefix {
			ex.prefix = base.prefix + "-" + id
		}
		exp := &ex
		execs = append(execs, exp)
		steps := s.Clients[id]
		wg.Add(1)
		go func(id string) {
			defer wg.Done()
			defer func() {
				if r := recover(); r != nil {
					msg := fmt.Sprintf("%v\n%s", r, string(debug.Stack()))
					if len(msg) > 600 {
						msg = msg[:600]
					}
					exp.emit("panic", Step{"c": id}, map[string]interface{}{"op": "thread", "msg": msg})
					exp.aborted = true
					mu.Lock()
					okAll = false
					mu.Unlock()
				}
			}()
			for i, st := range steps {
				exp.stepIdx = i
				exp.runStep(st)
			}
		}(id)
	}
	done := make(chan struct{})
	go func() { wg.Wait(); close(done) }()
	select {
	case <-done:
	case <-time.After(120 * time.Second):
		tr.Emit(map[string]interface{}{"ev": "hang", "op": "threads", "c": "-"})
		tr.Flush()
		os.Exit(3)
	}
	for _, ex := range execs {
		if !ex.aborted {
			for _, c := range ex.clients {
				ex.closeClient(c)
			}
		}
	}
	if after, has := s.Cfg["after"].([]interface{}); has && samePrefix {
		steps := []Step{}
		for _, x := range after {
			if m, isMap := x.(map[string]interface{}); isMap {
				steps = append(steps, Step(m))
			}
		}
		base.sc = &Scenario{ID: s.ID, Cfg: s.Cfg, Steps: steps}
		if !base.RunSeq() {
			okAll = false
		}
	}
	return okAll
}
