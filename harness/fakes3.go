package main

// fakes3: an in-memory object store implementing kv.S3Interface with
// strong read-after-write / list-after-write consistency, and the
// instruments the verification harness needs: a request log (emitted as
// trace events under the store mutex, after the request took effect), a
// scheduler gate, a fault plan and a crash plan per client, and
// snapshot/restore of the whole bucket.

import (
	"bytes"
	"context"
	"crypto/sha256"
	"encoding/hex"
	"encoding/json"
	"fmt"
	"github.com/jrhy/s3db/kv"
	"io"
	"sort"
	"strings"
	"sync"
	"time"

	"github.com/aws/aws-sdk-go/aws"
	"github.com/aws/aws-sdk-go/aws/awserr"
	"github.com/aws/aws-sdk-go/aws/request"
	"github.com/aws/aws-sdk-go/service/s3"
)

// Store is one fake bucket.
type Store struct {
	mu      sync.Mutex
	name    string
	objs    map[string][]byte
	tr      *Tracer
	clients map[string]*Client
	// putHashes remembers every content hash ever PUT under a key (C16 immutability).
	putHashes map[string]map[string]bool
	logS3     bool
	logNodes  bool
	logReads  bool
	// gobRoots: version objects that arrive in the JSON root format are stored in the earlier gob root format
	// (handles that load gob roots keep writing gob themselves): C17 on the gob format
	gobRoots bool
}

func NewStore(name string, tr *Tracer) *Store {
	return &Store{name: name, objs: map[string][]byte{}, tr: tr, clients: map[string]*Client{},
		putHashes: map[string]map[string]bool{}, logS3: true, logNodes: true, logReads: true}
}

type faultKind int

const (
	faultNone faultKind = iota
	faultErr
	faultDeadline
	fault404
)

// Client is the per-client view of a Store; it carries the client identity and
// the client's fault/crash/gate plans.
type Client struct {
	st *Store
	id string

	pmu      sync.Mutex
	reqs     int // requests issued so far (since last plan reset)
	muts     int // mutating requests applied so far (since last plan reset)
	failAt   map[int]faultKind
	failMut  map[int]faultKind // keyed by mutation index (0 = the first mutating request)
	mutIdx   int
	failFrom int // persistent from this request index (0-based), -1 = none
	failKind faultKind
	crashAt  int // after this many mutations every request fails; -1 = none
	crashed  bool
	allReqs  int // never reset
	allMuts  int
	allEff   int // mutations that changed the bucket (PUT of new/different content, DELETE of an existing object)

	// when / perm plan for the next mergeRoots of this client
	planWhen  *time.Time
	planPerm  int // permutation index, -1 none
	lastList  []string
	lastOrder []string // fold order of the last mergeRoots of this client (version tokens)

	// scheduler gate: when gated, every root-level request waits for a grant.
	gated   bool
	gateReq chan gateMsg
}

type gateMsg struct {
	desc  string
	grant chan struct{}
}

func (s *Store) Client(id string) *Client {
	s.mu.Lock()
	defer s.mu.Unlock()
	c, ok := s.clients[id]
	if !ok {
		c = &Client{st: s, id: id, failFrom: -1, crashAt: -1, planPerm: -1, failAt: map[int]faultKind{}, failMut: map[int]faultKind{}}
		s.clients[id] = c
	}
	return c
}

func (c *Client) ResetPlans() {
	c.pmu.Lock()
	defer c.pmu.Unlock()
	c.reqs, c.muts = 0, 0
	c.failAt = map[int]faultKind{}
	c.failMut = map[int]faultKind{}
	c.mutIdx = 0
	c.failFrom, c.crashAt = -1, -1
	c.failKind = faultNone
	c.crashed = false
}

func (c *Client) Counts() (int, int) {
	c.pmu.Lock()
	defer c.pmu.Unlock()
	return c.reqs, c.muts
}

// classify splits an object key into class and short name.
func classify(key string) (string, string) {
	if i := strings.Index(key, "/root/current/"); i >= 0 {
		return "cur", key[i+len("/root/current/"):]
	}
	if i := strings.Index(key, "/root/merged/"); i >= 0 {
		return "mrg", key[i+len("/root/merged/"):]
	}
	if i := strings.Index(key, "/node/"); i >= 0 {
		return "node", key[i+len("/node/"):]
	}
	return "other", key
}

func hashOf(b []byte) string {
	h := sha256.Sum256(b)
	return hex.EncodeToString(h[:6])
}

// before runs the client's plans for one request. It returns a non-nil error
// when the request must fail without touching the store.
func (c *Client) before(ctx context.Context, op, key string, mutating bool) error {
	cls, _ := classify(key)
	if c.gated && (cls == "cur" || cls == "mrg" || op == "LIST") {
		g := gateMsg{desc: op + " " + cls, grant: make(chan struct{})}
		c.gateReq <- g
		<-g.grant
	}
	c.pmu.Lock()
	defer c.pmu.Unlock()
	idx := c.reqs
	c.reqs++
	c.allReqs++
	if c.crashed || (c.crashAt >= 0 && c.muts >= c.crashAt) {
		c.crashed = true
		return awserr.New("RequestError", "injected crash: connection lost", nil)
	}
	k := faultNone
	if mutating {
		if fk, ok := c.failMut[c.mutIdx]; ok {
			k = fk
		}
		c.mutIdx++
	}
	if k != faultNone {
		// decided by the mutation index
	} else if fk, ok := c.failAt[idx]; ok {
		k = fk
	} else if c.failFrom >= 0 && idx >= c.failFrom {
		k = c.failKind
	}
	switch k {
	case faultErr:
		return awserr.New("RequestError", "injected transport error", nil)
	case faultDeadline:
		return awserr.New(request.CanceledErrorCode, "request context canceled", context.DeadlineExceeded)
	case fault404:
		// a well-formed "no such object" answer (an object lost or vacuumed elsewhere); only reads can get it
		if op == "GET" {
			return awserr.New(s3.ErrCodeNoSuchKey, "The specified key does not exist.", nil)
		}
	}
	if err := ctx.Err(); err != nil {
		return awserr.New(request.CanceledErrorCode, "request context canceled", err)
	}
	if mutating {
		c.muts++
		c.allMuts++
	}
	return nil
}

func (c *Client) totReqs() int { c.pmu.Lock(); defer c.pmu.Unlock(); return c.allReqs }
func (c *Client) totMuts() int { c.pmu.Lock(); defer c.pmu.Unlock(); return c.allMuts }
func (c *Client) totEff() int  { c.pmu.Lock(); defer c.pmu.Unlock(); return c.allEff }
func (c *Client) addEff()      { c.pmu.Lock(); c.allEff++; c.pmu.Unlock() }

func (c *Client) logReq(op, key, res string, body []byte) {
	// caller holds c.st.mu
	s := c.st
	if !s.logS3 || s.tr == nil {
		return
	}
	cls, name := classify(key)
	if cls == "node" && !s.logNodes {
		return
	}
	if op == "GET" && !s.logReads {
		return
	}
	e := map[string]interface{}{"ev": "s3", "c": c.id, "op": op, "cls": cls, "res": res}
	switch cls {
	case "cur", "mrg":
		e["name"] = s.tr.VersionToken(name)
	case "node":
		e["name"] = s.tr.NodeToken(name)
	default:
		e["name"] = name
	}
	if op == "PUT" && body != nil {
		e["hash"] = hashOf(body)
		if cls == "cur" || cls == "mrg" {
			var r struct {
				Created *time.Time `json:"cr"`
				Parents []string   `json:"p"`
				Link    *string    `json:"Link"`
				Size    uint64     `json:"Size"`
				Height  int        `json:"Height"`
			}
			jb := body
			if len(body) > 0 && body[0] != '{' {
				if j, jerr := kv.VerifRootToJSON(body); jerr == nil {
					jb = j
					e["format"] = "gob"
				}
			}
			if json.Unmarshal(jb, &r) == nil {
				ps := []string{}
				for _, p := range r.Parents {
					ps = append(ps, s.tr.VersionToken(p))
				}
				sort.Strings(ps)
				e["parents"] = ps
				if r.Created != nil {
					e["created"] = s.tr.TimeToken(*r.Created)
				} else {
					e["created"] = -1
				}
				e["size"] = int(r.Size)
				e["height"] = r.Height
				if r.Link != nil {
					e["root"] = s.tr.NodeToken(*r.Link)
				} else {
					e["root"] = "none"
				}
			}
		}
	}
	s.tr.Emit(e)
}

func (c *Client) DeleteObjectWithContext(ctx aws.Context, in *s3.DeleteObjectInput, _ ...request.Option) (*s3.DeleteObjectOutput, error) {
	if err := c.before(ctx, "DELETE", *in.Key, true); err != nil {
		c.st.mu.Lock()
		c.logReq("DELETE", *in.Key, "err", nil)
		c.st.mu.Unlock()
		return nil, err
	}
	c.st.mu.Lock()
	defer c.st.mu.Unlock()
	if _, existed := c.st.objs[*in.Key]; existed {
		c.addEff()
	}
	delete(c.st.objs, *in.Key)
	c.logReq("DELETE", *in.Key, "ok", nil)
	return &s3.DeleteObjectOutput{}, nil
}

func (c *Client) GetObjectWithContext(ctx aws.Context, in *s3.GetObjectInput, _ ...request.Option) (*s3.GetObjectOutput, error) {
	if err := c.before(ctx, "GET", *in.Key, false); err != nil {
		c.st.mu.Lock()
		c.logReq("GET", *in.Key, "err", nil)
		c.st.mu.Unlock()
		return nil, err
	}
	c.st.mu.Lock()
	defer c.st.mu.Unlock()
	b, ok := c.st.objs[*in.Key]
	if !ok {
		c.logReq("GET", *in.Key, "404", nil)
		return nil, awserr.New(s3.ErrCodeNoSuchKey, "The specified key does not exist.", nil)
	}
	c.logReq("GET", *in.Key, "ok", nil)
	cp := append([]byte{}, b...)
	return &s3.GetObjectOutput{Body: io.NopCloser(bytes.NewReader(cp)), ContentLength: aws.Int64(int64(len(cp)))}, nil
}

func (c *Client) ListObjectsV2WithContext(ctx aws.Context, in *s3.ListObjectsV2Input, _ ...request.Option) (*s3.ListObjectsV2Output, error) {
	if err := c.before(ctx, "LIST", *in.Prefix, false); err != nil {
		c.st.mu.Lock()
		c.logReq("LIST", *in.Prefix, "err", nil)
		c.st.mu.Unlock()
		return nil, err
	}
	c.st.mu.Lock()
	defer c.st.mu.Unlock()
	var keys []string
	for k := range c.st.objs {
		if strings.HasPrefix(k, *in.Prefix) {
			keys = append(keys, k)
		}
	}
	sort.Strings(keys)
	out := &s3.ListObjectsV2Output{IsTruncated: aws.Bool(false)}
	names := []string{}
	for _, k := range keys {
		k := k
		out.Contents = append(out.Contents, &s3.Object{Key: &k})
		_, n := classify(k)
		names = append(names, n)
	}
	if c.st.logS3 && c.st.logReads && c.st.tr != nil {
		cls := "other"
		if strings.HasSuffix(*in.Prefix, "root/current/") {
			cls = "cur"
		} else if strings.HasSuffix(*in.Prefix, "root/merged/") {
			cls = "mrg"
		} else if strings.HasSuffix(*in.Prefix, "node/") {
			cls = "node"
		}
		toks := []string{}
		for _, n := range names {
			if cls == "node" {
				toks = append(toks, c.st.tr.NodeToken(n))
			} else {
				toks = append(toks, c.st.tr.VersionToken(n))
			}
		}
		c.st.tr.Emit(map[string]interface{}{"ev": "s3", "c": c.id, "op": "LIST", "cls": cls, "res": "ok", "name": "-", "listed": toks})
	}
	return out, nil
}

func (c *Client) PutObjectWithContext(ctx aws.Context, in *s3.PutObjectInput, _ ...request.Option) (*s3.PutObjectOutput, error) {
	b, rerr := io.ReadAll(in.Body)
	if rerr != nil {
		return nil, rerr
	}
	if err := c.before(ctx, "PUT", *in.Key, true); err != nil {
		c.st.mu.Lock()
		c.logReq("PUT", *in.Key, "err", nil)
		c.st.mu.Unlock()
		return nil, err
	}
	c.st.mu.Lock()
	defer c.st.mu.Unlock()
	if c.st.gobRoots {
		if cls, _ := classify(*in.Key); (cls == "cur" || cls == "mrg") && len(b) > 0 && b[0] == '{' {
			if g, gerr := kv.VerifRootToGob(b); gerr == nil {
				b = g
			}
		}
	}
	if old, existed := c.st.objs[*in.Key]; !existed || !bytes.Equal(old, b) {
		c.addEff()
	}
	c.st.objs[*in.Key] = b
	h := hashOf(b)
	if c.st.putHashes[*in.Key] == nil {
		c.st.putHashes[*in.Key] = map[string]bool{}
	}
	c.st.putHashes[*in.Key][h] = true
	c.logReq("PUT", *in.Key, "ok", b)
	return &s3.PutObjectOutput{}, nil
}

// Proxy forwards to another S3 client (the process-wide in-memory bucket of OpenKV) while applying the harness
// client's plans and logging the requests exactly like the fake store does; the store's object map mirrors the
// successful mutations.
type Proxy struct {
	cl    *Client
	under interface {
		DeleteObjectWithContext(aws.Context, *s3.DeleteObjectInput, ...request.Option) (*s3.DeleteObjectOutput, error)
		GetObjectWithContext(aws.Context, *s3.GetObjectInput, ...request.Option) (*s3.GetObjectOutput, error)
		ListObjectsV2WithContext(aws.Context, *s3.ListObjectsV2Input, ...request.Option) (*s3.ListObjectsV2Output, error)
		PutObjectWithContext(aws.Context, *s3.PutObjectInput, ...request.Option) (*s3.PutObjectOutput, error)
	}
}

func (p *Proxy) log(op, key, res string, body []byte) {
	p.cl.st.mu.Lock()
	p.cl.logReq(op, key, res, body)
	p.cl.st.mu.Unlock()
}

func resOf(err error) string {
	if err == nil {
		return "ok"
	}
	if ae, ok := err.(awserr.Error); ok && ae.Code() == s3.ErrCodeNoSuchKey {
		return "404"
	}
	return "err"
}

func (p *Proxy) DeleteObjectWithContext(ctx aws.Context, in *s3.DeleteObjectInput, o ...request.Option) (*s3.DeleteObjectOutput, error) {
	if err := p.cl.before(ctx, "DELETE", *in.Key, true); err != nil {
		p.log("DELETE", *in.Key, "err", nil)
		return nil, err
	}
	out, err := p.under.DeleteObjectWithContext(ctx, in, o...)
	if err == nil {
		p.cl.st.mu.Lock()
		if _, existed := p.cl.st.objs[*in.Key]; existed {
			p.cl.addEff()
		}
		delete(p.cl.st.objs, *in.Key)
		p.cl.st.mu.Unlock()
	}
	p.log("DELETE", *in.Key, resOf(err), nil)
	return out, err
}

func (p *Proxy) GetObjectWithContext(ctx aws.Context, in *s3.GetObjectInput, o ...request.Option) (*s3.GetObjectOutput, error) {
	if err := p.cl.before(ctx, "GET", *in.Key, false); err != nil {
		p.log("GET", *in.Key, "err", nil)
		return nil, err
	}
	out, err := p.under.GetObjectWithContext(ctx, in, o...)
	p.log("GET", *in.Key, resOf(err), nil)
	return out, err
}

func (p *Proxy) ListObjectsV2WithContext(ctx aws.Context, in *s3.ListObjectsV2Input, o ...request.Option) (*s3.ListObjectsV2Output, error) {
	if err := p.cl.before(ctx, "LIST", *in.Prefix, false); err != nil {
		p.log("LIST", *in.Prefix, "err", nil)
		return nil, err
	}
	return p.under.ListObjectsV2WithContext(ctx, in, o...)
}

func (p *Proxy) PutObjectWithContext(ctx aws.Context, in *s3.PutObjectInput, o ...request.Option) (*s3.PutObjectOutput, error) {
	b, rerr := io.ReadAll(in.Body)
	if rerr != nil {
		return nil, rerr
	}
	if err := p.cl.before(ctx, "PUT", *in.Key, true); err != nil {
		p.log("PUT", *in.Key, "err", nil)
		return nil, err
	}
	in.Body = bytes.NewReader(b)
	out, err := p.under.PutObjectWithContext(ctx, in, o...)
	if err == nil {
		p.cl.st.mu.Lock()
		if old, existed := p.cl.st.objs[*in.Key]; !existed || !bytes.Equal(old, b) {
			p.cl.addEff()
		}
		p.cl.st.objs[*in.Key] = b
		p.cl.st.mu.Unlock()
	}
	p.log("PUT", *in.Key, resOf(err), b)
	return out, err
}

// Snapshot returns a deep copy of the bucket contents.
func (s *Store) Snapshot() map[string][]byte {
	s.mu.Lock()
	defer s.mu.Unlock()
	cp := make(map[string][]byte, len(s.objs))
	for k, v := range s.objs {
		cp[k] = append([]byte{}, v...)
	}
	return cp
}

func (s *Store) Restore(snap map[string][]byte) {
	s.mu.Lock()
	defer s.mu.Unlock()
	s.objs = make(map[string][]byte, len(snap))
	for k, v := range snap {
		s.objs[k] = append([]byte{}, v...)
	}
}

// Listing returns the short names per class.
func (s *Store) Listing() (cur, mrg, nodes []string) {
	s.mu.Lock()
	defer s.mu.Unlock()
	cur, mrg, nodes = []string{}, []string{}, []string{}
	for k := range s.objs {
		cls, n := classify(k)
		switch cls {
		case "cur":
			cur = append(cur, n)
		case "mrg":
			mrg = append(mrg, n)
		case "node":
			nodes = append(nodes, n)
		}
	}
	sort.Strings(cur)
	sort.Strings(mrg)
	sort.Strings(nodes)
	return
}

// Put overwrites an object behind the clients' backs (damage / format conversion by the scenario itself; not logged,
// not counted as a rewrite by a client).
func (s *Store) Put(key string, b []byte) {
	s.mu.Lock()
	defer s.mu.Unlock()
	s.objs[key] = append([]byte{}, b...)
}

func (s *Store) Get(key string) ([]byte, bool) {
	s.mu.Lock()
	defer s.mu.Unlock()
	b, ok := s.objs[key]
	return b, ok
}

// FindObject looks an object up by class and short name.
func (s *Store) FindObject(cls, name string) ([]byte, bool) {
	s.mu.Lock()
	defer s.mu.Unlock()
	for k, v := range s.objs {
		c, n := classify(k)
		if c == cls && n == name {
			return v, true
		}
	}
	return nil, false
}

// RewrittenKeys lists keys that were PUT with more than one distinct content.
func (s *Store) RewrittenKeys() []string {
	s.mu.Lock()
	defer s.mu.Unlock()
	res := []string{}
	for k, hs := range s.putHashes {
		if len(hs) > 1 {
			res = append(res, k)
		}
	}
	sort.Strings(res)
	return res
}

var _ = fmt.Sprintf
