package main

// sched.go: replay of request-grain schedules. Every client of the scenario
// runs its API steps on its own goroutine; it stops at a gate before every
// API call and before every root-level storage request (LIST, GET/PUT/DELETE
// of root/current and root/merged). The schedule is a sequence of client ids:
// each entry releases that client from its gate and lets it run, alone, until
// it reaches its next gate or finishes. After the schedule is used up the
// remaining clients are released round-robin. The `after` steps then run
// sequentially (final quiescent opens).

import (
	"fmt"
	"os"
	"runtime/debug"
	"time"
)

type schedClient struct {
	id      string
	ex      *Exec
	steps   []Step
	atGate  *gateMsg
	done    bool
	aborted bool
	evt     chan string // "gate" | "done"
}

func runSched(tr *Tracer, s *Scenario) bool {
	base := NewExec(tr, s)
	defer base.Close()
	ids := []string{}
	for id := range s.Clients {
		ids = append(ids, id)
	}
	// deterministic order
	for i := 0; i < len(ids); i++ {
		for j := i + 1; j < len(ids); j++ {
			if ids[j] < ids[i] {
				ids[i], ids[j] = ids[j], ids[i]
			}
		}
	}
	cl := map[string]*schedClient{}
	for _, id := range ids {
		ex := *base
		ex.clients = map[string]*cli{}
		ex.saved = map[string][]string{}
		ex.snaps = map[string]map[string][]byte{}
		sc := &schedClient{id: id, ex: &ex, steps: s.Clients[id], evt: make(chan string, 4)}
		fc := base.st.Client(id)
		fc.gateReq = make(chan gateMsg)
		fc.gated = true
		cl[id] = sc
	}
	// client goroutines
	for _, id := range ids {
		sc := cl[id]
		fc := base.st.Client(id)
		go func() {
			defer func() {
				if r := recover(); r != nil {
					msg := fmt.Sprintf("%v\n%s", r, string(debug.Stack()))
					if len(msg) > 600 {
						msg = msg[:600]
					}
					sc.ex.emit("panic", Step{"c": sc.id}, map[string]interface{}{"op": "sched", "msg": msg})
					sc.aborted = true
				}
				fc.gated = false
				sc.evt <- "done"
			}()
			for i, st := range sc.steps {
				// gate before every API call
				g := gateMsg{desc: "call " + st.str("op"), grant: make(chan struct{})}
				fc.gateReq <- g
				<-g.grant
				sc.ex.stepIdx = i
				sc.ex.runStep(st)
			}
		}()
	}
	// waitQuiet waits until client sc is at a gate or done.
	waitQuiet := func(sc *schedClient) bool {
		fc := base.st.Client(sc.id)
		select {
		case g := <-fc.gateReq:
			sc.atGate = &g
			return true
		case <-sc.evt:
			sc.done = true
			return true
		case <-time.After(30 * time.Second):
			return false
		}
	}
	for _, id := range ids {
		if !waitQuiet(cl[id]) {
			tr.Emit(map[string]interface{}{"ev": "hang", "op": "sched-start", "c": id})
			tr.Flush()
			os.Exit(3)
		}
	}
	grant := func(sc *schedClient) {
		if sc.done || sc.atGate == nil {
			return
		}
		g := sc.atGate
		sc.atGate = nil
		tr.Emit(map[string]interface{}{"ev": "grant", "c": sc.id, "gate": g.desc})
		close(g.grant)
		if !waitQuiet(sc) {
			tr.Emit(map[string]interface{}{"ev": "hang", "op": "sched", "c": sc.id})
			tr.Flush()
			os.Exit(3)
		}
	}
	for _, id := range s.Schedule {
		if sc, ok := cl[id]; ok {
			grant(sc)
		}
	}
	for {
		progress := false
		for _, id := range ids {
			if !cl[id].done {
				grant(cl[id])
				progress = true
			}
		}
		if !progress {
			break
		}
	}
	ok := true
	for _, id := range ids {
		if cl[id].aborted {
			ok = false
		}
		// the per-client executors opened connections: close them
		for _, c := range cl[id].ex.clients {
			cl[id].ex.closeClient(c)
		}
	}
	// sequential epilogue
	if after, has := s.Cfg["after"].([]interface{}); has {
		steps := []Step{}
		for _, x := range after {
			if m, isMap := x.(map[string]interface{}); isMap {
				steps = append(steps, Step(m))
			}
		}
		base.sc = &Scenario{ID: s.ID, Cfg: s.Cfg, Steps: steps}
		if !base.RunSeq() {
			ok = false
		}
	}
	return ok
}
