package main

// rowmerge.go: several writers, each on its own handle opened on the empty
// bucket and never refreshed, execute statements through the exported Go API;
// then read-only handles merge the writers' versions in imposed fold orders.
// The registers of every writer's tree and of every merge result are recorded
// (strict conformance of Rows!MergeEntry, RowsMonitor.tla).

import (
	"context"
	"fmt"
	"sort"

	"github.com/jrhy/s3db"
	"github.com/jrhy/s3db/writetime"
)

func runRowMerge(tr *Tracer, s *Scenario) (ok bool) {
	e := NewExec(tr, s)
	e.st.logS3 = false
	defer e.Close()
	defer func() {
		if r := recover(); r != nil {
			tr.Emit(map[string]interface{}{"ev": "panic", "op": "rowmerge", "c": "-", "msg": fmt.Sprintf("%v", r)})
			ok = false
		}
	}()
	seq := 0
	open := func(id string, ro bool, perm int) (*s3db.VirtualTable, error) {
		seq++
		args := []string{fmt.Sprintf("rm%d_%s_%d", scnSeq, id, seq), "columns=" + e.colspec, "s3_bucket=" + e.st.name, "s3_endpoint=http://" + id, "s3_prefix=" + e.prefix}
		if ro {
			args = append(args, "readonly")
		}
		if e.epn > 0 {
			args = append(args, fmt.Sprintf("entries_per_node=%d", e.epn))
		}
		fc := e.st.Client(id)
		fc.pmu.Lock()
		w := TokTime(500 + seq)
		fc.planWhen = &w
		fc.planPerm = perm
		fc.pmu.Unlock()
		return s3db.New(context.Background(), args)
	}
	vts := map[string]*s3db.VirtualTable{}
	writers := []string{}
	for _, st := range s.Steps {
		if st.str("op") == "stmt" {
			if _, has := vts[st.str("c")]; !has {
				vt, err := open(st.str("c"), false, -1)
				if err != nil {
					panic(err)
				}
				vts[st.str("c")] = vt
				writers = append(writers, st.str("c"))
				defer vt.Disconnect()
			}
		}
	}
	sort.Strings(writers)
	dump := func(vt *s3db.VirtualTable) []interface{} {
		d := map[string]interface{}{}
		e.dumpDB(vt.Tree.Root, d)
		if d["outcome"] != "ok" {
			panic(fmt.Sprintf("dump: %v", d["err"]))
		}
		return d["entries"].([]interface{})
	}
	versionsOf := func(vt *s3db.VirtualTable) []string {
		names, err := vt.Tree.Root.Roots()
		if err != nil {
			return []string{"?dirty"}
		}
		toks := []string{}
		for _, n := range names {
			toks = append(toks, tr.VersionToken(n))
		}
		sort.Strings(toks)
		return toks
	}
	for i, st := range s.Steps {
		e.stepIdx = i
		switch st.str("op") {
		case "stmt":
			c := st.str("c")
			vt := vts[c]
			kind, key := st.str("kind"), st.str("key")
			cols := st.strmap("cols")
			wt := st.num("wt", 0)
			ctx := writetime.NewContext(context.Background(), TokTime(wt))
			vals := map[string]string{}
			for _, cn := range e.cols {
				if v, has := cols[cn]; has {
					vals[cn] = v
				} else {
					vals[cn] = "NONE"
				}
			}
			visible := false
			for _, en := range dump(vt) {
				m := en.(map[string]interface{})
				if m["key"].(string) == key && m["live"].(bool) && !m["tomb"].(bool) {
					visible = true
				}
			}
			affected := 0
			var serr error
			switch kind {
			case "ins":
				values := map[int]interface{}{0: mustLit(key)}
				for j, cn := range e.cols {
					if v, has := cols[cn]; has {
						values[j+1] = mustLit(v)
					} else {
						values[j+1] = nil
					}
				}
				_, serr = vt.Insert(ctx, values)
				if serr == nil {
					affected = 1
				}
			case "upd":
				if visible {
					values := map[int]interface{}{}
					for j, cn := range e.cols {
						if v, has := cols[cn]; has {
							values[j+1] = mustLit(v)
						}
					}
					serr = vt.Update(ctx, mustLit(key), values)
					if serr == nil {
						affected = 1
					}
				}
			case "del":
				if visible {
					serr = vt.Delete(ctx, mustLit(key))
					if serr == nil {
						affected = 1
					}
				}
			}
			if serr == nil {
				serr = vt.Commit(ctx)
			}
			outcome := "ok"
			if serr != nil {
				outcome = "error"
				if serr == s3db.ErrS3DBConstraintPrimaryKey {
					outcome = "constraint_pk"
				}
			}
			tr.Emit(map[string]interface{}{"ev": "stmt", "c": c, "step": i, "id": st.str("id"), "kind": kind, "key": key,
				"vals": vals, "wt": wt, "intx": 0, "outcome": outcome, "err": errStr(serr), "affected": affected, "dm": 0, "dme": 0, "dr": 0, "api": 1})
			reg := map[string]interface{}{"ev": "regs", "c": c, "step": i, "key": key, "abs": true, "mod": 0, "st": 0, "live": false, "cols": []interface{}{}}
			for _, en := range dump(vt) {
				m := en.(map[string]interface{})
				if m["key"].(string) == key {
					reg["abs"], reg["mod"], reg["st"], reg["live"], reg["cols"] = false, m["mod"], m["st"], m["live"], m["cols"]
				}
			}
			tr.Emit(reg)
		case "merge":
			for _, w := range writers {
				tr.Emit(map[string]interface{}{"ev": "vregs", "c": w, "step": i, "version": versionsOf(vts[w]), "entries": dump(vts[w])})
			}
			id := st.str("c")
			vt, err := open(id, true, st.num("perm", -1))
			if err != nil {
				tr.Emit(map[string]interface{}{"ev": "mregs", "c": id, "step": i, "outcome": "error", "err": err.Error(), "order": []string{}, "entries": []interface{}{}, "perm": st.num("perm", -1)})
				continue
			}
			fc := e.st.Client(id)
			fc.pmu.Lock()
			order := append([]string{}, fc.lastOrder...)
			fc.pmu.Unlock()
			tr.Emit(map[string]interface{}{"ev": "mregs", "c": id, "step": i, "outcome": "ok", "err": "-", "order": order, "entries": dump(vt), "perm": st.num("perm", -1)})
			vt.Disconnect()
		}
	}
	return true
}
