package main

import (
	"fmt"
	"strings"
)

// doSelect runs one key-predicate query on the s3db table and on the native
// shadow table of the same connection and logs both results.
func (e *Exec) doSelect(s Step) {
	c := e.client(s.str("c"))
	build := func(table string) (string, []interface{}) {
		what := e.colList()
		switch s.str("agg") {
		case "count":
			what = "count(*)"
		case "min":
			what = "min(k)"
		case "max":
			what = "max(k)"
		case "countk":
			what = "count(k)"
		}
		q := "select " + what + " from " + table
		conds := []string{}
		args := []interface{}{}
		if w, ok := s["where"].([]interface{}); ok {
			for _, x := range w {
				p := x.([]interface{})
				conds = append(conds, "k "+p[0].(string)+" ?")
				args = append(args, mustLit(p[1].(string)))
			}
		}
		if s.has("inlist") {
			ph := []string{}
			for _, l := range s.strs("inlist") {
				ph = append(ph, "?")
				args = append(args, mustLit(l))
			}
			conds = append(conds, "k in ("+strings.Join(ph, ",")+")")
		}
		if len(conds) > 0 {
			q += " where " + strings.Join(conds, " and ")
		}
		switch s.str("order") {
		case "asc":
			q += " order by k asc"
		case "desc":
			q += " order by k desc"
		}
		if s.has("limit") {
			q += fmt.Sprintf(" limit %d", s.num("limit", 0))
		}
		return q, args
	}
	q, args := build(c.table)
	rows, err := e.query(c, q, args...)
	if err != nil {
		rows = [][]string{}
	}
	out := map[string]interface{}{"q": strings.Replace(q, c.table, "T", 1), "outcome": classifyErr(err), "err": errStr(err), "rows": rows,
		"order": s.str("order"), "agg": s.str("agg")}
	if c.shadow {
		q2, args2 := build("sh")
		r2, err2 := e.query(c, q2, args2...)
		if err2 != nil {
			r2 = [][]string{}
		}
		out["sh_outcome"] = classifyErr(err2)
		out["sh_rows"] = r2
	}
	e.emit("select", s, out)
}
