package main

// project.go: the abstraction function — register dumps through the public
// cursor API and reachable-node sets decoded from the stored objects.

import (
	"context"
	"database/sql"
	"encoding/json"
	"sort"
	"strconv"
	"time"

	"github.com/jrhy/s3db"
	"github.com/jrhy/s3db/kv"
	v1proto "github.com/jrhy/s3db/proto/v1"
	"google.golang.org/protobuf/proto"
)

func (e *Exec) dumpDB(root *kv.DB, out map[string]interface{}) {
	ctx := context.Background()
	entries := []interface{}{}
	cur, err := root.Cursor(ctx)
	if err == nil {
		err = cur.Min(ctx)
	}
	for err == nil {
		k, v, ok := cur.Get()
		if !ok {
			break
		}
		key := k.(*s3db.Key)
		mod := time.Unix(0, v.ModEpochNanos)
		ent := map[string]interface{}{
			"key":   fmtLit(key.Value()),
			"mod":   e.tr.TimeToken(mod),
			"modns": strconv.FormatInt(v.ModEpochNanos, 10),
			"tomb":  v.Tombstoned(),
			"prev":  "-",
		}
		if v.PreviousRoot != "" {
			ent["prev"] = e.tr.VersionToken(v.PreviousRoot)
		}
		cols := []interface{}{}
		live := false
		st := -1
		if row, _ := v.Value.(*v1proto.Row); row != nil && !v.Tombstoned() {
			live = !row.Deleted
			st = e.tr.TimeToken(mod.Add(row.DeleteUpdateOffset.AsDuration()))
			names := []string{}
			for n := range row.ColumnValues {
				names = append(names, n)
			}
			sort.Strings(names)
			for _, n := range names {
				cv := row.ColumnValues[n]
				ct := mod.Add(cv.UpdateOffset.AsDuration())
				cols = append(cols, []interface{}{n, e.tr.TimeToken(ct), fmtLit(s3db.FromSQLiteValue(cv.Value)), strconv.FormatInt(ct.UnixNano(), 10)})
			}
		}
		ent["live"] = live
		ent["st"] = st
		ent["cols"] = cols
		entries = append(entries, ent)
		err = cur.Forward(ctx)
	}
	out["outcome"] = classifyErr(err)
	out["err"] = errStr(err)
	out["entries"] = entries
	out["size"] = int(root.Size())
	out["height"] = root.Height()
	// scan order: the cursor's sequence of keys against native SQLite's ORDER BY of the same values (strictly
	// increasing = same sequence, no key twice)
	keys := []string{}
	for _, en := range entries {
		keys = append(keys, en.(map[string]interface{})["key"].(string))
	}
	out["order_ok"] = e.nativeStrictlyIncreasing(keys)
}

// nativeStrictlyIncreasing reports whether keys (typed literals) are in the order native SQLite sorts them in, without
// duplicates (under SQLite's comparison, so 1 and 1.0 count as the same key).
func (e *Exec) nativeStrictlyIncreasing(keys []string) bool {
	if len(keys) < 2 {
		return true
	}
	db, err := sql.Open("sqlite3", ":memory:")
	if err != nil {
		panic(err)
	}
	defer db.Close()
	db.SetMaxOpenConns(1)
	if _, err := db.Exec("create table o (pos integer, k)"); err != nil {
		panic(err)
	}
	tx, _ := db.Begin()
	for i, k := range keys {
		if _, err := tx.Exec("insert into o values (?, ?)", i, mustLit(k)); err != nil {
			panic(err)
		}
	}
	tx.Commit()
	var bad int
	// a pair out of order or equal: some later key is not greater than an earlier one
	if err := db.QueryRow("select count(*) from o a join o b on b.pos = a.pos + 1 where not (a.k < b.k)").Scan(&bad); err != nil {
		panic(err)
	}
	return bad == 0
}

func (e *Exec) doDump(s Step) {
	c := e.client(s.str("c"))
	out := map[string]interface{}{}
	vt := s3db.GetTable(c.table)
	if vt == nil || vt.Tree == nil || vt.Tree.Root == nil {
		out["outcome"] = "error"
		out["err"] = "table not registered"
		out["entries"] = []interface{}{}
		e.emit("dump", s, out)
		return
	}
	e.dumpDB(vt.Tree.Root, out)
	e.emit("dump", s, out)
}

// doKVDump opens the table's tree directly through s3db.OpenKV (read-only,
// optionally restricted to the given versions) as a fresh client with an
// empty cache, and dumps its registers: what "another process" reads from the
// bucket alone.
func (e *Exec) doKVDump(s Step) {
	c := e.client(s.str("c"))
	opts := s3db.S3Options{Bucket: e.st.name, Endpoint: "http://" + c.id, Prefix: e.prefix, ReadOnly: true,
		EntriesPerNode: s.num("epn", e.epn), NodeCacheEntries: s.num("cache", 0)}
	only, hasOnly := e.vlist(s, "only")
	out := map[string]interface{}{"only": only, "has_only": hasOnly}
	if hasOnly {
		names := []string{}
		for _, t := range only {
			if n, ok := e.tr.VersionName(t); ok {
				names = append(names, n)
			} else {
				names = append(names, "missing-"+t)
			}
		}
		opts.OnlyVersions = names
	}
	e.setPlanForOpen(c, s)
	kvh, err := s3db.OpenKV(context.Background(), opts, "s3db-rows")
	if err != nil {
		out["outcome"] = classifyErr(err)
		out["err"] = errStr(err)
		out["entries"] = []interface{}{}
		e.emit("kvdump", s, out)
		return
	}
	e.dumpDB(kvh.Root, out)
	kvh.Root.Cancel()
	e.emit("kvdump", s, out)
}

type rootObj struct {
	Link    *string    `json:"Link"`
	Size    uint64     `json:"Size"`
	Height  int        `json:"Height"`
	Created *time.Time `json:"cr"`
	Parents []string   `json:"p"`
}

// reachOf walks the node objects of one version object in the store.
func (e *Exec) reachOf(body []byte) (nodes []string, missing []string, undecodable []string) {
	nodes, missing, undecodable = []string{}, []string{}, []string{}
	var r rootObj
	if err := json.Unmarshal(body, &r); err != nil {
		undecodable = append(undecodable, "root")
		return
	}
	if r.Link == nil || *r.Link == "" {
		return
	}
	seen := map[string]bool{}
	todo := []string{*r.Link}
	for len(todo) > 0 {
		n := todo[0]
		todo = todo[1:]
		if seen[n] {
			continue
		}
		seen[n] = true
		b, ok := e.st.FindObject("node", n)
		if !ok {
			missing = append(missing, e.tr.NodeToken(n))
			continue
		}
		nodes = append(nodes, e.tr.NodeToken(n))
		var pn v1proto.Node
		if err := proto.Unmarshal(b, &pn); err != nil {
			undecodable = append(undecodable, e.tr.NodeToken(n))
			continue
		}
		for _, l := range pn.Link {
			if l != "" {
				todo = append(todo, l)
			}
		}
	}
	sort.Strings(nodes)
	sort.Strings(missing)
	return
}

func (e *Exec) doReach(s Step) {
	cur, mrg, allNodes := e.st.Listing()
	vers := []interface{}{}
	add := func(cls string, names []string) {
		for _, n := range names {
			b, _ := e.st.FindObject(cls, n)
			nodes, missing, und := e.reachOf(b)
			var r rootObj
			json.Unmarshal(b, &r)
			ps := []string{}
			for _, p := range r.Parents {
				ps = append(ps, e.tr.VersionToken(p))
			}
			sort.Strings(ps)
			cr := -1
			if r.Created != nil {
				cr = e.tr.TimeToken(*r.Created)
			}
			vers = append(vers, map[string]interface{}{"name": e.tr.VersionToken(n), "cls": cls, "nodes": nodes, "missing": missing, "undecodable": und, "parents": ps, "created": cr, "size": int(r.Size)})
		}
	}
	add("cur", cur)
	add("mrg", mrg)
	tn := []string{}
	for _, n := range allNodes {
		tn = append(tn, e.tr.NodeToken(n))
	}
	sort.Strings(tn)
	e.emit("reach", s, map[string]interface{}{"versions": vers, "nodes": tn})
}
