package main

// project.go: the abstraction function — register dumps through the public
// cursor API and reachable-node sets decoded from the stored objects.

import (
	"context"
	"encoding/json"
	"sort"
	"time"

	"github.com/jrhy/s3db"
	v1proto "github.com/jrhy/s3db/proto/v1"
	"google.golang.org/protobuf/proto"
)

func (e *Exec) doDump(s Step) {
	c := e.client(s.str("c"))
	out := map[string]interface{}{}
	vt := s3db.GetTable(c.table)
	if vt == nil || vt.Tree == nil || vt.Tree.Root == nil {
		out["outcome"] = "error"
		out["err"] = "table not registered"
		out["entries"] = []interface{}{}
		e.emit("dump", s, out)
		return
	}
	ctx := context.Background()
	entries := []interface{}{}
	cur, err := vt.Tree.Root.Cursor(ctx)
	if err == nil {
		err = cur.Min(ctx)
	}
	for err == nil {
		k, v, ok := cur.Get()
		if !ok {
			break
		}
		key := k.(*s3db.Key)
		mod := time.Unix(0, v.ModEpochNanos)
		ent := map[string]interface{}{
			"key":  fmtLit(key.Value()),
			"mod":  e.tr.TimeToken(mod),
			"tomb": v.Tombstoned(),
			"prev": "-",
		}
		if v.PreviousRoot != "" {
			ent["prev"] = e.tr.VersionToken(v.PreviousRoot)
		}
		cols := []interface{}{}
		live := false
		st := -1
		if row, _ := v.Value.(*v1proto.Row); row != nil && !v.Tombstoned() {
			live = !row.Deleted
			st = e.tr.TimeToken(mod.Add(row.DeleteUpdateOffset.AsDuration()))
			names := []string{}
			for n := range row.ColumnValues {
				names = append(names, n)
			}
			sort.Strings(names)
			for _, n := range names {
				cv := row.ColumnValues[n]
				cols = append(cols, []interface{}{n, e.tr.TimeToken(mod.Add(cv.UpdateOffset.AsDuration())), fmtLit(s3db.FromSQLiteValue(cv.Value))})
			}
		}
		ent["live"] = live
		ent["st"] = st
		ent["cols"] = cols
		entries = append(entries, ent)
		err = cur.Forward(ctx)
	}
	out["outcome"] = classifyErr(err)
	out["err"] = errStr(err)
	out["entries"] = entries
	out["size"] = int(vt.Tree.Root.Size())
	out["height"] = vt.Tree.Root.Height()
	e.emit("dump", s, out)
}

type rootObj struct {
	Link    *string    `json:"Link"`
	Size    uint64     `json:"Size"`
	Height  int        `json:"Height"`
	Created *time.Time `json:"cr"`
	Parents []string   `json:"p"`
}

// reachOf walks the node objects of one version object in the store.
func (e *Exec) reachOf(body []byte) (nodes []string, missing []string, undecodable []string) {
	nodes, missing, undecodable = []string{}, []string{}, []string{}
	var r rootObj
	if err := json.Unmarshal(body, &r); err != nil {
		undecodable = append(undecodable, "root")
		return
	}
	if r.Link == nil || *r.Link == "" {
		return
	}
	seen := map[string]bool{}
	todo := []string{*r.Link}
	for len(todo) > 0 {
		n := todo[0]
		todo = todo[1:]
		if seen[n] {
			continue
		}
		seen[n] = true
		b, ok := e.st.FindObject("node", n)
		if !ok {
			missing = append(missing, e.tr.NodeToken(n))
			continue
		}
		nodes = append(nodes, e.tr.NodeToken(n))
		var pn v1proto.Node
		if err := proto.Unmarshal(b, &pn); err != nil {
			undecodable = append(undecodable, e.tr.NodeToken(n))
			continue
		}
		for _, l := range pn.Link {
			if l != "" {
				todo = append(todo, l)
			}
		}
	}
	sort.Strings(nodes)
	sort.Strings(missing)
	return
}

func (e *Exec) doReach(s Step) {
	cur, mrg, allNodes := e.st.Listing()
	vers := []interface{}{}
	add := func(cls string, names []string) {
		for _, n := range names {
			b, _ := e.st.FindObject(cls, n)
			nodes, missing, und := e.reachOf(b)
			var r rootObj
			json.Unmarshal(b, &r)
			ps := []string{}
			for _, p := range r.Parents {
				ps = append(ps, e.tr.VersionToken(p))
			}
			sort.Strings(ps)
			cr := -1
			if r.Created != nil {
				cr = e.tr.TimeToken(*r.Created)
			}
			vers = append(vers, map[string]interface{}{"name": e.tr.VersionToken(n), "cls": cls, "nodes": nodes, "missing": missing, "undecodable": und, "parents": ps, "created": cr, "size": int(r.Size)})
		}
	}
	add("cur", cur)
	add("mrg", mrg)
	tn := []string{}
	for _, n := range allNodes {
		tn = append(tn, e.tr.NodeToken(n))
	}
	sort.Strings(tn)
	e.emit("reach", s, map[string]interface{}{"versions": vers, "nodes": tn})
}
