package main

import (
	"context"
	"database/sql"
	"encoding/json"
	"errors"
	"fmt"
	"os"
	"runtime"
	"runtime/debug"
	"sort"
	"strings"
	"sync"
	"time"

	"github.com/jrhy/s3db"
	"github.com/jrhy/s3db/kv"
	sqlite3 "github.com/mattn/go-sqlite3"

	_ "github.com/jrhy/s3db/sqlite"
	_ "github.com/jrhy/s3db/sqlite/sqlite-autoload-extension"
)

type Step map[string]interface{}

func (s Step) str(k string) string {
	if v, ok := s[k].(string); ok {
		return v
	}
	return ""
}
func (s Step) num(k string, def int) int {
	switch v := s[k].(type) {
	case float64:
		return int(v)
	case int:
		return v
	}
	return def
}
func (s Step) has(k string) bool { _, ok := s[k]; return ok }
func (s Step) strs(k string) []string {
	res := []string{}
	if a, ok := s[k].([]interface{}); ok {
		for _, x := range a {
			if xs, ok := x.(string); ok {
				res = append(res, xs)
			}
		}
	}
	return res
}
func (s Step) strmap(k string) map[string]string {
	res := map[string]string{}
	if m, ok := s[k].(map[string]interface{}); ok {
		for kk, v := range m {
			if vs, ok := v.(string); ok {
				res[kk] = vs
			}
		}
	}
	return res
}

type Scenario struct {
	ID       string            `json:"id"`
	Kind     string            `json:"kind"`
	Features []string          `json:"features"`
	Cfg      Step              `json:"cfg"`
	Steps    []Step            `json:"steps"`
	Clients  map[string][]Step `json:"clients"`
	Schedule []string          `json:"schedule"`
}

type cli struct {
	id     string
	db     *sql.DB
	conn   *sql.Conn
	table  string
	shadow bool
	mode   string
	wtSet  int // write_time token currently set on the connection; -1 = cleared
	fc     *Client
	inc    int
}

type Exec struct {
	tr      *Tracer
	sc      *Scenario
	st      *Store
	clients map[string]*cli
	snaps   map[string]map[string][]byte
	cols    []string
	colspec string
	epn     int
	cache   int
	prefix  string
	stepIdx int
	tabSeq  int
	stepTO  time.Duration

	stepReqs, stepMuts int
	stepEff            int
	callSeq            int
	aborted            bool
	saved              map[string][]string // labelled results of version steps
	inmem              bool                // tables without s3_bucket: the process-wide in-memory bucket, proxied (C19)
}

type inmemEntry struct {
	st *Store
	id string
}

var inmemReg = map[string]inmemEntry{} // s3_prefix spelling -> harness client (under storesMu)

// inmemPrefix gives client id its own spelling of the table prefix ("p", "p/", "/p", "/p/" name the same path), so
// that the OpenKV hook can tell the connections apart although they share the in-memory bucket.
func (e *Exec) inmemPrefix(id string) string {
	n := 0
	for _, ch := range id {
		if ch >= '0' && ch <= '9' {
			n = n*10 + int(ch-'0')
		}
	}
	sp := []string{e.prefix, e.prefix + "/", "/" + e.prefix, "/" + e.prefix + "/"}[n%4]
	storesMu.Lock()
	inmemReg[sp] = inmemEntry{e.st, id}
	storesMu.Unlock()
	return sp
}

var (
	storesMu sync.Mutex
	stores   = map[string]*Store{}
	scnSeq   int
)

func installHooks() {
	s3db.VerifS3 = func(o s3db.S3Options, c kv.S3Interface) kv.S3Interface {
		storesMu.Lock()
		st := stores[o.Bucket]
		storesMu.Unlock()
		if st == nil {
			storesMu.Lock()
			ent, ok := inmemReg[o.Prefix]
			storesMu.Unlock()
			if ok {
				return &Proxy{cl: ent.st.Client(ent.id), under: c}
			}
			return c
		}
		return st.Client(strings.TrimPrefix(o.Endpoint, "http://"))
	}
	kv.VerifMergeRoots = func(cfg kv.Config, roots []string, when time.Time) ([]string, time.Time) {
		storesMu.Lock()
		st := stores[cfg.Storage.BucketName]
		storesMu.Unlock()
		if st == nil {
			return roots, when
		}
		c := st.Client(strings.TrimPrefix(cfg.Storage.EndpointURL, "http://"))
		c.pmu.Lock()
		defer c.pmu.Unlock()
		if when.IsZero() {
			// TraceHistory opens with the zero time; keep it
		} else if c.planWhen != nil {
			when = *c.planWhen
		}
		if c.planPerm >= 0 && len(roots) > 1 {
			sorted := append([]string{}, roots...)
			sort.Strings(sorted)
			roots = nthPerm(sorted, c.planPerm)
		}
		// the fold order actually used, as tokens (strict conformance of the merge transcription)
		c.lastOrder = c.lastOrder[:0]
		for _, r := range roots {
			c.lastOrder = append(c.lastOrder, st.tr.VersionToken(r))
		}
		return roots, when
	}
}

// nthPerm returns the k-th (mod n!) permutation of xs in lexicographic index order.
func nthPerm(xs []string, k int) []string {
	n := len(xs)
	f := 1
	for i := 2; i <= n; i++ {
		f *= i
	}
	k = k % f
	pool := append([]string{}, xs...)
	res := make([]string, 0, n)
	for i := n; i >= 1; i-- {
		f /= i
		idx := k / f
		k = k % f
		res = append(res, pool[idx])
		pool = append(pool[:idx], pool[idx+1:]...)
	}
	return res
}

func NewExec(tr *Tracer, sc *Scenario) *Exec {
	scnSeq++
	e := &Exec{tr: tr, sc: sc, clients: map[string]*cli{}, snaps: map[string]map[string][]byte{}, stepTO: 30 * time.Second, saved: map[string][]string{}}
	e.cols = sc.Cfg.strs("cols")
	if len(e.cols) == 0 {
		e.cols = []string{"a", "b"}
	}
	e.colspec = sc.Cfg.str("colspec")
	if e.colspec == "" {
		e.colspec = "k primary key"
		for _, c := range e.cols {
			e.colspec += ", " + c
		}
	}
	e.epn = sc.Cfg.num("epn", 0)
	e.cache = sc.Cfg.num("cache", 0)
	e.prefix = fmt.Sprintf("p%d", scnSeq)
	bucket := fmt.Sprintf("vb-%d-%d", os.Getpid(), scnSeq)
	e.st = NewStore(bucket, tr)
	if sc.Cfg.has("log_nodes") && sc.Cfg.num("log_nodes", 1) == 0 {
		e.st.logNodes = false
	}
	if sc.Cfg.has("log_reads") && sc.Cfg.num("log_reads", 1) == 0 {
		e.st.logReads = false
	}
	if sc.Cfg.has("log_s3") && sc.Cfg.num("log_s3", 1) == 0 {
		e.st.logS3 = false
	}
	storesMu.Lock()
	stores[bucket] = e.st
	storesMu.Unlock()
	return e
}

func (e *Exec) Close() {
	for _, c := range e.clients {
		if e.aborted {
			// a Go panic unwound through SQLite's C frames: the connection's mutex may still be held and
			// closing it would block forever; abandon the connection
			continue
		}
		e.closeClient(c)
	}
	storesMu.Lock()
	delete(stores, e.st.name)
	storesMu.Unlock()
}

func (e *Exec) client(id string) *cli {
	c, ok := e.clients[id]
	if !ok {
		c = &cli{id: id, wtSet: -1, fc: e.st.Client(id)}
		e.clients[id] = c
	}
	return c
}

func (e *Exec) closeClient(c *cli) {
	if c.conn != nil {
		c.conn.Close()
		c.conn = nil
	}
	if c.db != nil {
		c.db.Close()
		c.db = nil
	}
	c.table = ""
	c.wtSet = -1
}

func classifyErr(err error) string {
	if err == nil {
		return "ok"
	}
	var se sqlite3.Error
	if errors.As(err, &se) {
		switch se.ExtendedCode {
		case sqlite3.ErrConstraintPrimaryKey:
			return "constraint_pk"
		case sqlite3.ErrConstraintNotNull:
			return "constraint_notnull"
		case sqlite3.ErrConstraintUnique:
			return "constraint_pk"
		}
		if se.Code == sqlite3.ErrConstraint {
			return "constraint_other"
		}
	}
	m := err.Error()
	switch {
	case strings.Contains(m, "read-only"), strings.Contains(m, "readonly"):
		return "readonly"
	case strings.Contains(m, "UNIQUE constraint failed"), strings.Contains(m, "key not unique"):
		return "constraint_pk"
	case strings.Contains(m, "NOT NULL constraint failed"), strings.Contains(m, "constraint: NOT NULL"):
		return "constraint_notnull"
	}
	return "error"
}

func errStr(err error) string {
	if err == nil {
		return "-"
	}
	s := err.Error()
	if len(s) > 200 {
		s = s[:200]
	}
	return s
}

func (e *Exec) exec(c *cli, q string, args ...interface{}) (int, error) {
	if c.conn == nil {
		return 0, errors.New("harness: client not open")
	}
	res, err := c.conn.ExecContext(context.Background(), q, args...)
	if err != nil {
		return 0, err
	}
	n, _ := res.RowsAffected()
	return int(n), nil
}

func (e *Exec) query(c *cli, q string, args ...interface{}) ([][]string, error) {
	if c.conn == nil {
		return nil, errors.New("harness: client not open")
	}
	rows, err := c.conn.QueryContext(context.Background(), q, args...)
	if err != nil {
		return nil, err
	}
	defer rows.Close()
	cols, err := rows.Columns()
	if err != nil {
		return nil, err
	}
	out := [][]string{}
	for rows.Next() {
		vals := make([]interface{}, len(cols))
		ptrs := make([]interface{}, len(cols))
		for i := range vals {
			ptrs[i] = &vals[i]
		}
		if err := rows.Scan(ptrs...); err != nil {
			return nil, err
		}
		r := make([]string, len(cols))
		for i, v := range vals {
			r[i] = fmtLit(v)
		}
		out = append(out, r)
	}
	if err := rows.Err(); err != nil {
		return nil, err
	}
	return out, nil
}

func (e *Exec) colList() string { return "k, " + strings.Join(e.cols, ", ") }

func (e *Exec) tableRows(c *cli) ([][]string, error) {
	return e.query(c, "select "+e.colList()+" from "+c.table)
}

func (e *Exec) versionOf(c *cli) ([]string, error) {
	r, err := e.query(c, "select s3db_version(?)", c.table)
	if err != nil {
		return nil, err
	}
	if len(r) != 1 || !strings.HasPrefix(r[0][0], "t:") {
		return nil, fmt.Errorf("unexpected s3db_version result %v", r)
	}
	var names []string
	if err := json.Unmarshal([]byte(r[0][0][2:]), &names); err != nil {
		return nil, err
	}
	toks := []string{}
	for _, n := range names {
		toks = append(toks, e.tr.VersionToken(n))
	}
	sort.Strings(toks)
	return toks, nil
}

func (e *Exec) setWriteTime(c *cli, wt int) error {
	if c.wtSet == wt {
		return nil
	}
	var err error
	if wt < 0 {
		_, err = e.exec(c, "update s3db_conn set write_time=NULL")
	} else {
		_, err = e.exec(c, "update s3db_conn set write_time=?", TokTime(wt).Format(s3db.SQLiteTimeFormat))
	}
	if err == nil {
		c.wtSet = wt
	}
	return err
}

func (e *Exec) setPlanForOpen(c *cli, s Step) {
	c.fc.pmu.Lock()
	w := TokTime(s.num("when", 100+e.stepIdx))
	c.fc.planWhen = &w
	c.fc.planPerm = s.num("perm", -1)
	c.fc.pmu.Unlock()
}

// recent request summary of a client since mark
type reqSummary struct {
	puts, dels, gets, lists int
}

// emitCall logs the start of an API call with its arguments, before it runs, so
// that storage requests issued inside the call can be attributed to it.
func (e *Exec) emitCall(s Step) {
	op := s.str("op")
	m := map[string]interface{}{"ev": "call", "op": op, "step": e.stepIdx}
	if c := s.str("c"); c != "" {
		m["c"] = c
	}
	switch op {
	case "stmt":
		cols := s.strmap("cols")
		vals := map[string]string{}
		for _, n := range e.cols {
			if v, ok := cols[n]; ok {
				vals[n] = v
			} else {
				vals[n] = "NONE"
			}
		}
		m["kind"], m["key"], m["vals"], m["wt"], m["intx"] = s.str("kind"), s.str("key"), vals, s.num("wt", -1), s.num("intx", 0)
	case "vacuum":
		m["cutoff"] = s.num("cutoff", 0)
	}
	e.callSeq = e.tr.Emit(m)
}

func (e *Exec) emit(ev string, s Step, extra map[string]interface{}) {
	m := map[string]interface{}{"ev": ev, "step": e.stepIdx}
	if c := s.str("c"); c != "" {
		m["c"] = c
		if ev != "open_start" {
			// storage requests / mutations issued by this client during this step
			m["dr"] = e.client(c).fc.totReqs() - e.stepReqs
			m["dm"] = e.client(c).fc.totMuts() - e.stepMuts
			m["dme"] = e.client(c).fc.totEff() - e.stepEff
		}
	}
	if ev != "call" && e.callSeq > 0 {
		m["cseq"] = e.callSeq
	}
	for _, k := range []string{"fix", "tag", "phase", "same", "same_as_begin"} {
		if s.has(k) {
			m[k] = s[k]
		}
	}
	for k, v := range extra {
		m[k] = v
	}
	e.tr.Emit(m)
}

func (e *Exec) doOpen(s Step) {
	c := e.client(s.str("c"))
	if c.conn != nil {
		e.closeClient(c)
	}
	mode := s.str("mode")
	if mode == "" {
		mode = "rw"
	}
	c.mode = mode
	e.setPlanForOpen(c, s)
	db, err := sql.Open("sqlite3", ":memory:")
	if err != nil {
		panic(err)
	}
	db.SetMaxOpenConns(1)
	c.db = db
	c.conn, err = db.Conn(context.Background())
	if err != nil {
		panic(err)
	}
	c.inc++
	e.tabSeq++
	c.table = fmt.Sprintf("t%d_%s_%d", scnSeq, c.id, e.tabSeq)
	e.emit("open_start", s, map[string]interface{}{"mode": mode, "when": s.num("when", 100+e.stepIdx)})
	_, err = e.exec(c, e.createSQL(c, s, mode))
	out := map[string]interface{}{"mode": mode, "outcome": classifyErr(err), "err": errStr(err), "when": s.num("when", 100+e.stepIdx), "perm": s.num("perm", -1)}
	if err == nil {
		if s.num("shadow", e.sc.Cfg.num("shadow", 0)) == 1 {
			c.shadow = true
			shspec := e.sc.Cfg.str("shadow_colspec")
			if shspec == "" {
				shspec = "k primary key, " + strings.Join(e.cols, ", ")
			}
			if _, err := e.exec(c, "create table sh ("+shspec+") without rowid"); err != nil {
				panic(err)
			}
		}
		v, verr := e.versionOf(c)
		if verr != nil {
			out["version"] = []string{"?" + errStr(verr)}
		} else {
			out["version"] = v
		}
		rows, rerr := e.tableRows(c)
		out["rows_outcome"] = classifyErr(rerr)
		if rerr != nil {
			rows = [][]string{}
			out["rows_err"] = errStr(rerr)
		}
		out["rows"] = rows
	} else {
		e.closeClient(c)
	}
	e.emit("open_done", s, out)
}

func (e *Exec) doRefresh(s Step) {
	c := e.client(s.str("c"))
	e.setPlanForOpen(c, s)
	e.emit("open_start", s, map[string]interface{}{"mode": "refresh", "when": s.num("when", 100+e.stepIdx)})
	_, err := e.query(c, "select s3db_refresh(?)", c.table)
	out := map[string]interface{}{"mode": c.mode, "refresh": 1, "outcome": classifyErr(err), "err": errStr(err), "when": s.num("when", 100+e.stepIdx), "perm": s.num("perm", -1)}
	if err == nil {
		v, verr := e.versionOf(c)
		if verr != nil {
			out["version"] = []string{"?" + errStr(verr)}
		} else {
			out["version"] = v
		}
		rows, rerr := e.tableRows(c)
		out["rows_outcome"] = classifyErr(rerr)
		if rerr != nil {
			rows = [][]string{}
			out["rows_err"] = errStr(rerr)
		}
		out["rows"] = rows
	}
	e.emit("open_done", s, out)
}

func (e *Exec) stmtSQL(c *cli, table string, s Step) (string, []interface{}) {
	kind := s.str("kind")
	key := s.str("key")
	cols := s.strmap("cols")
	names := []string{}
	for n := range cols {
		names = append(names, n)
	}
	sort.Strings(names)
	switch kind {
	case "ins":
		cl := []string{"k"}
		ph := []string{"?"}
		args := []interface{}{mustLit(key)}
		for _, n := range names {
			cl = append(cl, n)
			ph = append(ph, "?")
			args = append(args, mustLit(cols[n]))
		}
		return "insert into " + table + " (" + strings.Join(cl, ",") + ") values (" + strings.Join(ph, ",") + ")", args
	case "upd":
		sets := []string{}
		args := []interface{}{}
		for _, n := range names {
			sets = append(sets, n+"=?")
			args = append(args, mustLit(cols[n]))
		}
		args = append(args, mustLit(key))
		return "update " + table + " set " + strings.Join(sets, ", ") + " where k=?", args
	case "del":
		return "delete from " + table + " where k=?", []interface{}{mustLit(key)}
	case "updall":
		sets := []string{}
		args := []interface{}{}
		for _, n := range names {
			sets = append(sets, n+"=?")
			args = append(args, mustLit(cols[n]))
		}
		return "update " + table + " set " + strings.Join(sets, ", "), args
	case "delall":
		return "delete from " + table, nil
	}
	panic("unknown stmt kind " + kind)
}

func (e *Exec) doStmt(s Step) {
	c := e.client(s.str("c"))
	out := map[string]interface{}{"id": s.str("id"), "kind": s.str("kind"), "key": s.str("key"), "wt": s.num("wt", -1), "intx": s.num("intx", 0)}
	cols := s.strmap("cols")
	cl := []string{}
	for n := range cols {
		cl = append(cl, n)
	}
	sort.Strings(cl)
	vals := map[string]string{}
	for _, n := range e.cols {
		if v, ok := cols[n]; ok {
			vals[n] = v
		} else {
			vals[n] = "NONE"
		}
	}
	out["assigned"] = cl
	out["vals"] = vals
	// a value that cannot be stored (TEXT that is not UTF-8) may be refused
	unstorable := strings.HasPrefix(s.str("key"), "u:")
	for _, v := range cols {
		if strings.HasPrefix(v, "u:") {
			unstorable = true
		}
	}
	out["unstorable"] = unstorable
	if !s.has("keep_wt") {
		if err := e.setWriteTime(c, s.num("wt", -1)); err != nil {
			out["outcome"] = "error"
			out["err"] = "set write_time: " + errStr(err)
			out["affected"] = 0
			e.emit("stmt", s, out)
			return
		}
	}
	q, args := e.stmtSQL(c, c.table, s)
	n, err := e.exec(c, q, args...)
	out["outcome"] = classifyErr(err)
	out["err"] = errStr(err)
	out["affected"] = n
	if c.shadow {
		q2, args2 := e.stmtSQL(c, "sh", s)
		n2, err2 := e.exec(c, q2, args2...)
		out["sh_outcome"] = classifyErr(err2)
		out["sh_affected"] = n2
	}
	if s.num("intx", 0) == 0 {
		if v, verr := e.versionOf(c); verr == nil {
			out["version"] = v
		} else {
			out["version"] = []string{"?"}
		}
	}
	out["intx"] = s.num("intx", 0)
	if s.has("keep_wt") {
		out["keep_wt"] = 1
	}
	e.emit("stmt", s, out)
}

func (e *Exec) doTxEvent(op string, s Step, err error) {
	c := e.client(s.str("c"))
	out := map[string]interface{}{"outcome": classifyErr(err), "err": errStr(err)}
	if v, verr := e.versionOf(c); verr == nil {
		out["version"] = v
	} else {
		out["version"] = []string{"?"}
	}
	e.emit(op, s, out)
}

func (e *Exec) doTx(s Step) {
	c := e.client(s.str("c"))
	op := s.str("op")
	if op == "begin" && s.has("wt") {
		e.setWriteTime(c, s.num("wt", -1))
	}
	_, err := e.exec(c, strings.ToUpper(op))
	out := map[string]interface{}{"outcome": classifyErr(err), "err": errStr(err)}
	if c.shadow {
		e.exec(c, "select 1") // keep shadow in same tx; nothing to do: same connection
	}
	if op != "begin" {
		if v, verr := e.versionOf(c); verr == nil {
			out["version"] = v
		} else {
			out["version"] = []string{"?"}
		}
	}
	e.emit(op, s, out)
}

func (e *Exec) doRows(s Step) {
	c := e.client(s.str("c"))
	rows, err := e.tableRows(c)
	if err != nil {
		rows = [][]string{}
	}
	out := map[string]interface{}{"outcome": classifyErr(err), "err": errStr(err), "rows": rows}
	if c.shadow {
		r2, err2 := e.query(c, "select "+e.colList()+" from sh order by k")
		if err2 != nil {
			r2 = [][]string{}
		}
		out["sh_rows"] = r2
	}
	e.emit("rows", s, out)
}

func (e *Exec) doVersion(s Step) {
	c := e.client(s.str("c"))
	v, err := e.versionOf(c)
	if err != nil {
		v = []string{}
	}
	if s.has("save") && err == nil {
		e.saved[s.str("save")] = v
	}
	out := map[string]interface{}{"outcome": classifyErr(err), "err": errStr(err), "names": v}
	if s.has("save") {
		out["save"] = s.str("save")
		rows, rerr := e.tableRows(c)
		if rerr != nil {
			rows = [][]string{}
		}
		out["rows"] = rows
		out["rows_outcome"] = classifyErr(rerr)
	}
	e.emit("version", s, out)
}

func (e *Exec) versionArg(toks []string) string {
	names := []string{}
	for _, t := range toks {
		if n, ok := e.tr.VersionName(t); ok {
			names = append(names, n)
		} else {
			names = append(names, "missing-"+t)
		}
	}
	b, _ := json.Marshal(names)
	return string(b)
}

// vlist resolves a version list given literally (key) or by reference to a
// saved version step (key_ref).
func (e *Exec) vlist(s Step, key string) ([]string, bool) {
	if s.has(key + "_ref") {
		v, ok := e.saved[s.str(key+"_ref")]
		if !ok {
			panic("harness: no saved version " + s.str(key+"_ref"))
		}
		return v, true
	}
	if s.has(key) {
		return s.strs(key), true
	}
	return []string{}, false
}

func (e *Exec) doChanges(s Step) {
	c := e.client(s.str("c"))
	e.tabSeq++
	name := fmt.Sprintf("chg%d_%d", scnSeq, e.tabSeq)
	args := []string{"table='" + c.table + "'"}
	from, _ := e.vlist(s, "from")
	to, hasTo := e.vlist(s, "to")
	args = append(args, "from='"+e.versionArg(from)+"'")
	if hasTo {
		args = append(args, "to='"+e.versionArg(to)+"'")
	}
	out := map[string]interface{}{"from": from, "to": to, "has_to": hasTo}
	_, err := e.exec(c, "create virtual table "+name+" using s3db_changes ("+strings.Join(args, ", ")+")")
	rows := [][]string{}
	if err == nil {
		rows, err = e.query(c, "select "+e.colList()+" from "+name)
		if err != nil {
			rows = [][]string{}
		}
		e.exec(c, "drop table "+name)
	}
	out["outcome"] = classifyErr(err)
	out["err"] = errStr(err)
	out["rows"] = rows
	e.emit("changes", s, out)
}

func (e *Exec) doVacuum(s Step) {
	c := e.client(s.str("c"))
	cutoff := s.num("cutoff", 0)
	r, err := e.query(c, "select vacuum_error from s3db_vacuum(?, ?)", c.table, TokTime(cutoff).Format(s3db.SQLiteTimeFormat))
	out := map[string]interface{}{"cutoff": cutoff, "outcome": classifyErr(err), "err": errStr(err)}
	if err == nil {
		if len(r) == 1 && r[0][0] != "NULL" {
			out["outcome"] = "vacuum_error"
			out["err"] = r[0][0]
			if strings.Contains(r[0][0], "read-only") {
				out["outcome"] = "readonly"
			}
		}
	}
	if v, verr := e.versionOf(c); verr == nil {
		out["version"] = v
	} else {
		out["version"] = []string{"?"}
	}
	e.emit("vacuum", s, out)
}

func (e *Exec) doConnSet(s Step) {
	c := e.client(s.str("c"))
	attr := s.str("attr")
	var err error
	val := "NULL"
	tok := s.num("t", -1)
	if s.has("t") {
		val = TokTime(s.num("t", 0)).Format(s3db.SQLiteTimeFormat)
		_, err = e.exec(c, "update s3db_conn set "+attr+"=?", val)
	} else if s.has("raw") {
		val = s.str("raw")
		_, err = e.exec(c, "update s3db_conn set "+attr+"=?", val)
		if tm, perr := time.Parse(s3db.SQLiteTimeFormat, val); perr == nil {
			tok = e.tr.TimeToken(tm)
		} else {
			tok = -2
		}
	} else {
		_, err = e.exec(c, "update s3db_conn set "+attr+"=NULL")
	}
	if attr == "write_time" {
		c.wtSet = -2
		if err == nil {
			if s.has("t") {
				c.wtSet = s.num("t", 0)
			} else if !s.has("raw") {
				c.wtSet = -1
			}
		}
	}
	e.emit("conn_set", s, map[string]interface{}{"attr": attr, "t": tok, "val": val, "outcome": classifyErr(err), "err": errStr(err)})
}

func (e *Exec) doConnGet(s Step) {
	c := e.client(s.str("c"))
	r, err := e.query(c, "select deadline, write_time from s3db_conn")
	out := map[string]interface{}{"outcome": classifyErr(err), "err": errStr(err), "deadline": -3, "write_time": -3}
	if err == nil && len(r) == 1 {
		conv := func(l string) interface{} {
			if l == "NULL" {
				return -1
			}
			if strings.HasPrefix(l, "t:") {
				if tm, perr := time.Parse(s3db.SQLiteTimeFormat, l[2:]); perr == nil {
					return e.tr.TimeToken(tm)
				}
			}
			return -2
		}
		out["deadline"] = conv(r[0][0])
		out["write_time"] = conv(r[0][1])
	}
	e.emit("conn_get", s, out)
}

func (e *Exec) doBucket(s Step) {
	cur, mrg, nodes := e.st.Listing()
	tc, tm, tn := []string{}, []string{}, []string{}
	for _, n := range cur {
		tc = append(tc, e.tr.VersionToken(n))
	}
	for _, n := range mrg {
		tm = append(tm, e.tr.VersionToken(n))
	}
	for _, n := range nodes {
		tn = append(tn, e.tr.NodeToken(n))
	}
	sort.Strings(tc)
	sort.Strings(tm)
	sort.Strings(tn)
	e.emit("bucket", s, map[string]interface{}{"cur": tc, "mrg": tm, "nodes": tn, "rewritten": e.st.RewrittenKeys()})
}

func (e *Exec) doPlan(s Step) {
	c := e.client(s.str("c"))
	c.fc.ResetPlans()
	c.fc.pmu.Lock()
	if s.has("crash_after") {
		c.fc.crashAt = s.num("crash_after", -1)
	}
	kind := faultErr
	if s.str("kind") == "deadline" {
		kind = faultDeadline
	} else if s.str("kind") == "404" {
		kind = fault404
	}
	if s.has("fail_mut_at") {
		c.fc.failMut[s.num("fail_mut_at", -1)] = kind
	}
	if s.has("fail_at") {
		if s.num("persistent", 0) == 1 {
			c.fc.failFrom = s.num("fail_at", -1)
			c.fc.failKind = kind
		} else {
			c.fc.failAt[s.num("fail_at", -1)] = kind
		}
	}
	c.fc.pmu.Unlock()
	e.emit("plan", s, map[string]interface{}{"crash_after": s.num("crash_after", -1), "fail_at": s.num("fail_at", -1), "fail_mut_at": s.num("fail_mut_at", -1), "kind": s.str("kind"), "persistent": s.num("persistent", 0)})
}

func (e *Exec) doHeal(s Step) {
	c := e.client(s.str("c"))
	reqs, muts := c.fc.Counts()
	c.fc.pmu.Lock()
	crashed := c.fc.crashed
	c.fc.pmu.Unlock()
	c.fc.ResetPlans()
	e.emit("heal", s, map[string]interface{}{"reqs": reqs, "muts": muts, "crashed": crashed})
}

func (e *Exec) doSnapshot(s Step) {
	e.snaps[s.str("name")] = e.st.Snapshot()
	e.emit("snapshot", s, map[string]interface{}{"name": s.str("name")})
}

func (e *Exec) doRestore(s Step) {
	snap, ok := e.snaps[s.str("name")]
	if !ok {
		panic("no snapshot " + s.str("name"))
	}
	e.st.Restore(snap)
	e.emit("restore", s, map[string]interface{}{"name": s.str("name")})
}

func (e *Exec) doClose(s Step) {
	c := e.client(s.str("c"))
	e.closeClient(c)
	e.emit("close", s, nil)
}

func (e *Exec) runStep(s Step) {
	if c := s.str("c"); c != "" {
		e.stepReqs = e.client(c).fc.totReqs()
		e.stepMuts = e.client(c).fc.totMuts()
		e.stepEff = e.client(c).fc.totEff()
	}
	e.callSeq = 0
	switch s.str("op") {
	case "stmt", "vacuum", "commit", "begin", "rollback", "open", "refresh", "changes":
		e.emitCall(s)
	}
	switch s.str("op") {
	case "open":
		e.doOpen(s)
	case "refresh":
		e.doRefresh(s)
	case "create":
		e.doCreate(s)
	case "stmt":
		e.doStmt(s)
	case "begin", "commit", "rollback":
		e.doTx(s)
	case "rollback_any":
		// end whatever transaction may still be open; not an observation (no event unless a rollback happened)
		c := e.client(s.str("c"))
		if _, err := e.exec(c, "ROLLBACK"); err == nil {
			e.doTxEvent("rollback", s, nil)
		}
	case "rows":
		e.doRows(s)
	case "select":
		e.doSelect(s)
	case "version":
		e.doVersion(s)
	case "changes":
		e.doChanges(s)
	case "vacuum":
		e.doVacuum(s)
	case "conn_set":
		e.doConnSet(s)
	case "conn_get":
		e.doConnGet(s)
	case "bucket":
		e.doBucket(s)
	case "reach":
		e.doReach(s)
	case "dump":
		e.doDump(s)
	case "kvdump":
		e.doKVDump(s)
	case "prefill":
		e.doPrefill(s)
	case "tx2tables":
		e.doTx2Tables(s)
	case "sql":
		e.doSQL(s)
	case "reopen":
		e.doReopen(s)
	case "plan":
		e.doPlan(s)
	case "heal":
		e.doHeal(s)
	case "snapshot":
		e.doSnapshot(s)
	case "restore":
		e.doRestore(s)
	case "close":
		e.doClose(s)
	case "gc":
		runtime.GC()
		runtime.GC()
		e.emit("gc", s, nil)
	default:
		panic("unknown op " + s.str("op"))
	}
}

// RunSeq executes a sequential scenario. Returns false if the scenario was aborted.
func (e *Exec) RunSeq() bool {
	for i, s := range e.sc.Steps {
		e.stepIdx = i
		done := make(chan interface{}, 1)
		go func() {
			defer func() {
				if r := recover(); r != nil {
					done <- fmt.Sprintf("%v\n%s", r, string(debug.Stack()))
					return
				}
				done <- nil
			}()
			e.runStep(s)
		}()
		select {
		case r := <-done:
			if r != nil {
				msg := r.(string)
				if len(msg) > 600 {
					msg = msg[:600]
				}
				e.emit("panic", s, map[string]interface{}{"op": s.str("op"), "msg": msg})
				e.aborted = true
				return false
			}
		case <-time.After(e.stepTO):
			e.emit("hang", s, map[string]interface{}{"op": s.str("op")})
			e.tr.Flush()
			os.Exit(3)
		}
	}
	return true
}

// doPrefill inserts n rows (integer keys base, base+stride, ...) in one
// transaction so that the tree has several levels; each row is logged as an
// ordinary statement event.
func (e *Exec) doPrefill(s Step) {
	c := e.client(s.str("c"))
	n := s.num("n", 10)
	base := s.num("base", 1000)
	stride := s.num("stride", 1)
	wt := s.num("wt", 0)
	e.doTx(Step{"op": "begin", "c": c.id})
	for i := 0; i < n; i++ {
		k := base + i*stride
		cols := map[string]interface{}{}
		for _, cn := range e.cols {
			cols[cn] = fmt.Sprintf("t:%s_p%d", cn, k)
		}
		e.doStmt(Step{"op": "stmt", "c": c.id, "id": fmt.Sprintf("p%d", k), "kind": "ins", "key": fmt.Sprintf("i:%d", k), "cols": cols, "wt": float64(wt), "intx": float64(1)})
	}
	e.doTx(Step{"op": "commit", "c": c.id})
}

// doTx2Tables: one explicit transaction with the default write time that writes
// to two s3db tables of the same connection; reports the entry times of the
// rows it wrote (C05: one write time per transaction).
func (e *Exec) doTx2Tables(s Step) {
	c := e.client(s.str("c"))
	e.tabSeq++
	t2 := fmt.Sprintf("u%d_%s_%d", scnSeq, c.id, e.tabSeq)
	out := map[string]interface{}{"times": []string{}}
	fail := func(err error) {
		out["outcome"] = classifyErr(err)
		out["err"] = errStr(err)
		e.emit("tx2", s, out)
	}
	args := []string{"columns='k primary key, a'", "s3_bucket='" + e.st.name + "'", "s3_endpoint='http://" + c.id + "'", "s3_prefix='" + e.prefix + "-second'"}
	if _, err := e.exec(c, "create virtual table "+t2+" using s3db ("+strings.Join(args, ", ")+")"); err != nil {
		fail(err)
		return
	}
	if err := e.setWriteTime(c, -1); err != nil {
		fail(err)
		return
	}
	base := s.num("base", 8800)
	stmts := []string{
		"begin",
		fmt.Sprintf("insert into %s (k, a) values (%d, 'x1')", c.table, base),
		fmt.Sprintf("insert into %s (k, a) values (%d, 'y1')", t2, base),
		fmt.Sprintf("insert into %s (k, a) values (%d, 'x2')", c.table, base+1),
		fmt.Sprintf("update %s set a='y2' where k=%d", t2, base),
		"commit",
	}
	for _, q := range stmts {
		if q == "commit" {
			time.Sleep(3 * time.Millisecond)
		}
		if _, err := e.exec(c, q); err != nil {
			e.exec(c, "rollback")
			fail(fmt.Errorf("%s: %w", q, err))
			return
		}
		time.Sleep(2 * time.Millisecond)
	}
	times := []string{}
	for _, tn := range []string{c.table, t2} {
		vt := s3db.GetTable(tn)
		if vt == nil {
			continue
		}
		d := map[string]interface{}{}
		e.dumpDB(vt.Tree.Root, d)
		for _, en := range d["entries"].([]interface{}) {
			m := en.(map[string]interface{})
			k := m["key"].(string)
			if k == fmt.Sprintf("i:%d", base) || k == fmt.Sprintf("i:%d", base+1) {
				times = append(times, m["modns"].(string))
			}
		}
	}
	// leave table 1 as it was (the rows become invisible delete markers) and drop the second table
	time.Sleep(2 * time.Millisecond)
	if _, err := e.exec(c, fmt.Sprintf("delete from %s where k in (%d, %d)", c.table, base, base+1)); err != nil {
		fail(fmt.Errorf("cleanup: %w", err))
		return
	}
	e.exec(c, "drop table "+t2)
	out["times"] = times
	out["outcome"] = "ok"
	out["err"] = "-"
	e.emit("tx2", s, out)
}

// doSQL runs one SQL statement (text with {T} for the table) on the s3db table
// and on the native shadow table of the same connection, and logs both
// outcomes / results side by side (C06, C07, C08).
func (e *Exec) doSQL(s Step) {
	c := e.client(s.str("c"))
	q := s.str("q")
	args := []interface{}{}
	for _, l := range s.strs("args") {
		args = append(args, mustLit(l))
	}
	out := map[string]interface{}{"q": q, "args": s.strs("args"), "kind": s.str("kind"), "ordered": s.num("ordered", 0)}
	if s.has("wt") {
		if err := e.setWriteTime(c, s.num("wt", -1)); err != nil {
			out["outcome"], out["err"] = "error", "set write_time: "+errStr(err)
			e.emit("sql", s, out)
			return
		}
	}
	run := func(table string) (string, int, [][]string, string) {
		qq := strings.ReplaceAll(q, "{T}", table)
		if s.str("kind") == "query" {
			rows, err := e.query(c, qq, args...)
			if err != nil {
				rows = [][]string{}
			}
			return classifyErr(err), 0, rows, errStr(err)
		}
		n, err := e.exec(c, qq, args...)
		return classifyErr(err), n, [][]string{}, errStr(err)
	}
	o, n, rows, es := run(c.table)
	out["outcome"], out["affected"], out["rows"], out["err"] = o, n, rows, es
	if c.shadow && strings.Contains(q, "{T}") {
		o2, n2, rows2, es2 := run("sh")
		out["sh_outcome"], out["sh_affected"], out["sh_rows"], out["sh_err"] = o2, n2, rows2, es2
	}
	e.emit("sql", s, out)
}

func (e *Exec) createSQL(c *cli, s Step, mode string) string {
	args := []string{}
	if mode == "ro" || mode == "hist" {
		args = append(args, "readonly")
	}
	args = append(args, "columns='"+strings.ReplaceAll(e.colspec, "'", "''")+"'")
	if e.inmem {
		args = append(args, "s3_prefix='"+e.inmemPrefix(c.id)+"'")
	} else {
		args = append(args, "s3_bucket='"+e.st.name+"'", "s3_endpoint='http://"+c.id+"'", "s3_prefix='"+e.prefix+"'")
	}
	epn := s.num("epn", e.epn)
	if epn > 0 {
		args = append(args, fmt.Sprintf("entries_per_node=%d", epn))
	}
	cache := s.num("cache", e.cache)
	if cache > 0 {
		args = append(args, fmt.Sprintf("node_cache_entries=%d", cache))
	}
	return "create virtual table " + c.table + " using s3db (" + strings.Join(args, ", ") + ")"
}

// doReopen drops the virtual table and creates it again on the SAME SQLite
// connection (the native shadow table of that connection stays): the s3db
// table is re-read from the bucket.
func (e *Exec) doReopen(s Step) {
	c := e.client(s.str("c"))
	_, err := e.exec(c, "drop table "+c.table)
	if err == nil {
		e.tabSeq++
		c.table = fmt.Sprintf("t%d_%s_%d", scnSeq, c.id, e.tabSeq)
		e.setPlanForOpen(c, s)
		_, err = e.exec(c, e.createSQL(c, s, c.mode))
	}
	e.emit("reopen", s, map[string]interface{}{"outcome": classifyErr(err), "err": errStr(err)})
}
