package main

import (
	"bufio"
	"encoding/json"
	"fmt"
	"io"
	"sync"
	"time"
)

// Base of the scenario clock: time token T means BaseTime + T seconds. It is far
// in the future so that every explicit scenario time is later than the real
// clock (statements that use the default write time are "older than token 0").
var BaseTime = time.Date(2100, 1, 1, 0, 0, 0, 0, time.UTC)

func TokTime(tok int) time.Time { return BaseTime.Add(time.Duration(tok) * time.Second) }

// Tracer writes NDJSON events with a global sequence number and keeps the
// name -> token maps (versions v1.., nodes n1..) of the current scenario.
type Tracer struct {
	mu    sync.Mutex
	w     *bufio.Writer
	seq   int
	sc    string
	vtok  map[string]string
	vname map[string]string
	ntok  map[string]string
	nname map[string]string
}

func NewTracer(w io.Writer) *Tracer {
	t := &Tracer{w: bufio.NewWriterSize(w, 1<<20)}
	t.ResetMaps("")
	return t
}

func (t *Tracer) ResetMaps(sc string) {
	t.mu.Lock()
	defer t.mu.Unlock()
	t.sc = sc
	t.vtok, t.vname = map[string]string{}, map[string]string{}
	t.ntok, t.nname = map[string]string{}, map[string]string{}
}

func (t *Tracer) VersionToken(name string) string {
	t.mu.Lock()
	defer t.mu.Unlock()
	if tok, ok := t.vtok[name]; ok {
		return tok
	}
	tok := fmt.Sprintf("v%d", len(t.vtok)+1)
	t.vtok[name] = tok
	t.vname[tok] = name
	return tok
}

func (t *Tracer) VersionName(tok string) (string, bool) {
	t.mu.Lock()
	defer t.mu.Unlock()
	n, ok := t.vname[tok]
	return n, ok
}

func (t *Tracer) NodeToken(name string) string {
	t.mu.Lock()
	defer t.mu.Unlock()
	if tok, ok := t.ntok[name]; ok {
		return tok
	}
	tok := fmt.Sprintf("n%d", len(t.ntok)+1)
	t.ntok[name] = tok
	t.nname[tok] = name
	return tok
}

func (t *Tracer) TimeToken(tm time.Time) int {
	d := tm.Sub(BaseTime)
	if d%time.Second != 0 || d < -1000000*time.Second || d > 1000000*time.Second {
		if tm.Before(BaseTime) {
			return -999
		}
		return 999999
	}
	return int(d / time.Second)
}

func (t *Tracer) Emit(e map[string]interface{}) int {
	t.mu.Lock()
	defer t.mu.Unlock()
	t.seq++
	seq := t.seq
	defer func() { _ = seq }()
	e["seq"] = t.seq
	e["sc"] = t.sc
	b, err := json.Marshal(e)
	if err != nil {
		panic(err)
	}
	t.w.Write(b)
	t.w.WriteByte('\n')
	return seq
}

func (t *Tracer) Flush() {
	t.mu.Lock()
	defer t.mu.Unlock()
	t.w.Flush()
}
