package main

// create.go: CREATE VIRTUAL TABLE probes (C20). The step runs one CREATE with
// the concrete argument list it is given and records what can be observed:
// the outcome; on success the declared schema (pragma table_info, select *),
// the NOT NULL / key behaviour of every column, reading each column by its
// expected name; on failure whether the name stayed in the process-wide
// registry and whether the same name can be created afterwards; always the
// storage mutations issued. No verdict is computed here.

import (
	"context"
	"database/sql"
	"fmt"
	"strings"

	"github.com/jrhy/s3db"
)

func quoteIdent(n string) string { return `"` + strings.ReplaceAll(n, `"`, `""`) + `"` }

func (e *Exec) doCreate(s Step) {
	c := e.client(s.str("c"))
	if c.conn != nil {
		e.closeClient(c)
	}
	db, err := sql.Open("sqlite3", ":memory:")
	if err != nil {
		panic(err)
	}
	db.SetMaxOpenConns(1)
	c.db = db
	c.conn, err = db.Conn(context.Background())
	if err != nil {
		panic(err)
	}
	c.mode = "rw"
	e.setPlanForOpen(c, s)
	e.tabSeq++
	name := fmt.Sprintf("t%d_%s_%d", scnSeq, c.id, e.tabSeq)
	c.table = name
	args := []string{}
	has := map[string]bool{}
	prefix := fmt.Sprintf("%s-c%d", e.prefix, e.tabSeq) // every CREATE gets its own (empty) table
	if raw, ok := s["args"].([]interface{}); ok {
		for _, a := range raw {
			as, _ := a.(string)
			// the storage options are spelled by the generator but valued here
			as = strings.ReplaceAll(as, "{BUCKET}", e.st.name)
			as = strings.ReplaceAll(as, "{ENDPOINT}", "http://"+c.id)
			as = strings.ReplaceAll(as, "{PREFIX}", prefix)
			args = append(args, as)
			has[strings.SplitN(strings.TrimSpace(as), "=", 2)[0]] = true
		}
	}
	storage := []string{}
	for _, kv := range [][2]string{{"s3_bucket", "'" + e.st.name + "'"}, {"s3_endpoint", "'http://" + c.id + "'"}, {"s3_prefix", "'" + prefix + "'"}} {
		if kv[0] == "s3_bucket" && s.num("no_bucket", 0) == 1 {
			continue
		}
		if !has[kv[0]] {
			storage = append(storage, kv[0]+"="+kv[1])
		}
	}
	all := append(append([]string{}, args...), storage...)
	if s.num("storage_first", 0) == 1 {
		all = append(append([]string{}, storage...), args...)
	}
	q := "create virtual table " + name + " using s3db (" + strings.Join(all, ", ") + ")"
	fault := s.num("fault", 0) == 1
	if fault {
		// the first storage request of this CREATE (the listing of the versions) fails
		c.fc.ResetPlans()
		c.fc.pmu.Lock()
		c.fc.failAt[0] = faultErr
		c.fc.pmu.Unlock()
	}
	_, err = e.exec(c, q)
	if fault {
		c.fc.ResetPlans()
	}
	out := map[string]interface{}{"fault": fault, "unspecified": s.num("no_bucket", 0) == 1, "outcome": classifyErr(err), "err": errStr(err), "abs": s["abs"], "names": s["names"], "sql": q}
	if err != nil {
		out["registered"] = s3db.GetTable(name) != nil
		_, rerr := e.exec(c, "create virtual table "+name+" using s3db (columns='k primary key, v', "+strings.Join([]string{"s3_bucket='" + e.st.name + "'", "s3_endpoint='http://" + c.id + "'", "s3_prefix='" + prefix + "'"}, ", ")+")")
		out["recreate"] = classifyErr(rerr)
		out["recreate_err"] = errStr(rerr)
		if rerr == nil {
			e.exec(c, "drop table "+name)
		}
		e.emit("create", s, out)
		return
	}
	out["registered"] = s3db.GetTable(name) != nil
	out["readonly"] = has["readonly"]
	ti, terr := e.query(c, "select name, lower(type), \"notnull\", pk from pragma_table_info('"+name+"')")
	out["ti_outcome"] = classifyErr(terr)
	if terr != nil {
		ti = [][]string{}
	}
	out["ti"] = ti
	names := []string{}
	for _, r := range ti {
		names = append(names, strings.TrimPrefix(r[0], "t:"))
	}
	// columns of select *
	if rows, qerr := c.conn.QueryContext(context.Background(), "select * from "+name); qerr == nil {
		cols, _ := rows.Columns()
		rows.Close()
		out["selcols"] = cols
	} else {
		out["selcols"] = []string{"?" + errStr(qerr)}
	}
	n := len(names)
	idents := make([]string, n)
	for i, nm := range names {
		idents[i] = quoteIdent(nm)
	}
	ph := strings.TrimSuffix(strings.Repeat("?,", n), ",")
	ins := "insert into " + name + " (" + strings.Join(idents, ",") + ") values (" + ph + ")"
	// probe values agree with the declared type of their column (s3db stores values as given, SQLite applies the
	// declared affinity when it hands key values back: not what this property is about)
	types := make([]string, n)
	for i, r := range ti {
		types[i] = strings.TrimPrefix(r[1], "t:")
	}
	val := func(col, v int) interface{} {
		switch {
		case strings.Contains(types[col], "text") || strings.Contains(types[col], "char"):
			return fmt.Sprintf("s%d", v)
		case strings.Contains(types[col], "real"):
			return float64(v) + 0.5
		}
		return int64(v)
	}
	// NULL in column i, everything else set
	nullprobe := []string{}
	for i := 0; i < n; i++ {
		vals := make([]interface{}, n)
		for j := range vals {
			if j != i {
				vals[j] = val(j, 100*(i+1)+j)
			}
		}
		_, ierr := e.exec(c, ins, vals...)
		nullprobe = append(nullprobe, classifyErr(ierr))
		e.exec(c, "delete from "+name)
	}
	out["nullprobe"] = nullprobe
	// the same full row twice
	vals := make([]interface{}, n)
	want := []string{}
	for j := range vals {
		vals[j] = val(j, 7000+j)
		want = append(want, fmtLit(vals[j]))
	}
	out["byname_want"] = want
	_, e1 := e.exec(c, ins, vals...)
	_, e2 := e.exec(c, ins, vals...)
	out["ins1"] = classifyErr(e1)
	out["ins2"] = classifyErr(e2)
	cnt, cerr := e.query(c, "select count(*) from "+name)
	if cerr == nil && len(cnt) == 1 {
		out["count"] = cnt[0][0]
	} else {
		out["count"] = "?" + errStr(cerr)
	}
	// read every column by the name the specification gave it
	byname := []string{}
	if exp, ok := s["names"].([]interface{}); ok {
		for _, x := range exp {
			nm, _ := x.(string)
			r, rerr := e.query(c, "select "+quoteIdent(nm)+" from "+name+" limit 1")
			if rerr != nil {
				byname = append(byname, "?"+classifyErr(rerr))
			} else if len(r) == 0 {
				byname = append(byname, "?norow")
			} else {
				byname = append(byname, r[0][0])
			}
		}
	}
	out["byname"] = byname
	_, derr := e.exec(c, "drop table "+name)
	out["drop"] = classifyErr(derr)
	out["registered_after_drop"] = s3db.GetTable(name) != nil
	e.emit("create", s, out)
}
