package main

// order.go: direct calls of Key.Order on pairs of concrete keys, with the
// native SQLite comparison of the same two values logged next to it (C07).

import (
	"context"
	"database/sql"
	"fmt"

	"github.com/jrhy/s3db"
)

func runOrder(tr *Tracer, s *Scenario) bool {
	db, err := sql.Open("sqlite3", ":memory:")
	if err != nil {
		panic(err)
	}
	defer db.Close()
	db.SetMaxOpenConns(1)
	ok := true
	for i, st := range s.Steps {
		switch st.str("op") {
		case "cmp":
			a, b := st.str("a"), st.str("b")
			ev := map[string]interface{}{"ev": "order", "step": i, "a": a, "b": b, "ak": st["ak"], "bk": st["bk"]}
			func() {
				defer func() {
					if r := recover(); r != nil {
						ev["res"] = 99
						ev["panic"] = fmt.Sprintf("%v", r)
						ok = false
					}
				}()
				ev["res"] = s3db.NewKey(mustLit(a)).Order(s3db.NewKey(mustLit(b)))
			}()
			var lt, eq int
			if err := db.QueryRowContext(context.Background(), "select (?1 < ?2), (?1 = ?2)", mustLit(a), mustLit(b)).Scan(&lt, &eq); err != nil {
				ev["native"] = 98
			} else if lt == 1 {
				ev["native"] = -1
			} else if eq == 1 {
				ev["native"] = 0
			} else {
				ev["native"] = 1
			}
			tr.Emit(ev)
		case "order_done":
			tr.Emit(map[string]interface{}{"ev": "order_done", "step": i})
		}
	}
	return ok
}
