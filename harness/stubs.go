package main

func runKV(tr *Tracer, s *Scenario) bool    { panic("kv: not implemented") }
