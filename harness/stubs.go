package main

func runKV(tr *Tracer, s *Scenario) bool    { panic("kv: not implemented") }
func runOrder(tr *Tracer, s *Scenario) bool { panic("order: not implemented") }
