package main

