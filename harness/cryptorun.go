package main

// cryptorun.go: scenarios on the node encryptor (C18), executed on the real
// code: directly on kv.V1NodeEncryptor's Encrypt/Decrypt and through kv.Open
// with Config.NodeEncryptor on the fake store. Every seal, damage, open and
// re-seal is logged; the expected result of every open is computed by TLC
// (CryptoMonitor.tla) from the same events.

import (
	"bytes"
	"context"
	"fmt"
	"sort"
	"strings"

	"github.com/jrhy/s3db/kv"
)

type cbox struct {
	pass   string
	msg    string
	via    string
	plain  []byte            // via func
	ct     []byte            // via func: the stored bytes (possibly damaged)
	orig   []byte            // via func: the bytes as sealed
	prefix string            // via kv
	kvs    map[string]string // via kv: the entries
	node   string            // via kv: the damaged object's key in the store
}

func plaintext(msg string, n int) []byte {
	var b bytes.Buffer
	i := 0
	for b.Len() < n {
		fmt.Fprintf(&b, "PLAINTEXT<%s>#%04d;", msg, i)
		i++
	}
	return b.Bytes()[:n]
}

func leakOf(ct, plain []byte) (bool, string) {
	const w = 8
	for i := 0; i+w <= len(plain); i++ {
		if bytes.Contains(ct, plain[i:i+w]) {
			return true, string(plain[i : i+w])
		}
	}
	return false, "-"
}

func runCrypto(tr *Tracer, s *Scenario) (ok bool) {
	e := NewExec(tr, s)
	defer e.Close()
	ctx := context.Background()
	boxes := map[int]*cbox{}
	ok = true
	defer func() {
		if r := recover(); r != nil {
			tr.Emit(map[string]interface{}{"ev": "panic", "op": "crypto", "msg": fmt.Sprintf("%v", r)})
			ok = false
		}
	}()
	kvcfgAt := func(prefix, pass string) kv.Config {
		return kv.Config{
			Storage:       &kv.S3BucketInfo{EndpointURL: "http://c", BucketName: e.st.name, Prefix: prefix},
			KeysLike:      "key",
			ValuesLike:    "value",
			NodeEncryptor: kv.V1NodeEncryptor([]byte(pass)),
		}
	}
	kvcfg := func(b *cbox, pass string) kv.Config { return kvcfgAt(b.prefix, pass) }
	fc := e.st.Client("c")
	nodeKeysAt := func(prefix string) []string {
		keys := []string{}
		for k := range e.st.Snapshot() {
			if strings.HasPrefix(k, prefix+"/node/") {
				keys = append(keys, k)
			}
		}
		sort.Strings(keys)
		return keys
	}
	nodeKeys := func(b *cbox) []string { return nodeKeysAt(b.prefix) }
	nodeBytes := func(b *cbox) []byte {
		var all []byte
		for _, k := range nodeKeys(b) {
			v, _ := e.st.Get(k)
			all = append(all, v...)
		}
		return all
	}
	writeKVAt := func(b *cbox, pass, prefix string) error {
		db, err := kv.Open(ctx, fc, kvcfgAt(prefix, pass), kv.OpenOptions{}, TokTime(100))
		if err != nil {
			return err
		}
		defer db.Cancel()
		names := []string{}
		for k := range b.kvs {
			names = append(names, k)
		}
		sort.Strings(names)
		for _, k := range names {
			if err := db.Set(ctx, TokTime(50), k, b.kvs[k]); err != nil {
				return err
			}
		}
		_, err = db.Commit(ctx)
		return err
	}
	writeKV := func(b *cbox, pass string) error { return writeKVAt(b, pass, b.prefix) }
	resealN := 0
	for i, st := range s.Steps {
		e.stepIdx = i
		switch st.str("op") {
		case "seal":
			b := &cbox{pass: st.str("key"), msg: st.str("msg"), via: st.str("via")}
			id := st.num("box", 0)
			boxes[id] = b
			n := st.num("len", 0)
			out := map[string]interface{}{"ev": "seal", "box": id, "key": b.pass, "msg": b.msg, "fmt": st.str("fmt"), "via": b.via, "len": n,
				"leak": false, "leak_what": "-", "hash": "-", "rewritten": false, "err": "-"}
			var err error
			if b.via == "func" {
				b.plain = plaintext(b.msg, n)
				if st.str("fmt") == "legacy" {
					b.ct, err = kv.VerifLegacyEncrypt([]byte(b.pass), b.plain)
				} else {
					b.ct, err = kv.V1NodeEncryptor([]byte(b.pass)).Encrypt("", b.plain)
				}
				if err == nil {
					b.orig = append([]byte{}, b.ct...)
					out["hash"] = hashOf(b.ct)
					out["ctlen"] = len(b.ct)
					out["leak"], out["leak_what"] = leakOf(b.ct, b.plain)
				}
			} else {
				b.prefix = fmt.Sprintf("%s-box%d", e.prefix, id)
				b.kvs = map[string]string{}
				// a few entries whose values carry n bytes of recognisable text in total
				cnt := 1 + n/400
				for j := 0; j < cnt; j++ {
					b.kvs[fmt.Sprintf("KEY<%s>%02d", b.msg, j)] = string(plaintext(b.msg+fmt.Sprintf(".%d", j), n/cnt+1))
				}
				err = writeKV(b, b.pass)
				if err == nil && st.str("fmt") == "legacy" {
					// re-seal every stored node in the earlier format (what an older release would have written)
					for _, k := range nodeKeys(b) {
						v, _ := e.st.Get(k)
						p, derr := kv.V1NodeEncryptor([]byte(b.pass)).Decrypt("", v)
						if derr != nil {
							err = derr
							break
						}
						l, lerr := kv.VerifLegacyEncrypt([]byte(b.pass), p)
						if lerr != nil {
							err = lerr
							break
						}
						e.st.Put(k, l)
					}
				}
				if err == nil {
					all := nodeBytes(b)
					out["hash"] = hashOf(all)
					out["ctlen"] = len(all)
					out["nodes"] = len(nodeKeys(b))
					for k, v := range b.kvs {
						if lk, what := leakOf(all, []byte(k)); lk {
							out["leak"], out["leak_what"] = true, what
						}
						if lk, what := leakOf(all, []byte(v)); lk {
							out["leak"], out["leak_what"] = true, what
						}
					}
				}
			}
			out["outcome"] = classifyErr(err)
			out["err"] = errStr(err)
			tr.Emit(out)
		case "damage":
			id := st.num("box", 0)
			b := boxes[id]
			pos := st.num("pos", 0)
			var cur []byte
			if b.via == "func" {
				cur = b.ct
			} else {
				ks := nodeKeys(b)
				b.node = ks[pos%len(ks)]
				cur, _ = e.st.Get(b.node)
			}
			nb := append([]byte{}, cur...)
			body := len(cur) - 40
			flip := func(bit int) { nb[bit/8] ^= 1 << uint(bit%8) }
			switch st.str("kind") {
			case "nonce_bit":
				flip(pos % 192)
			case "tag_bit":
				flip(192 + pos%128)
			case "body_bit":
				flip(320 + pos%(8*body))
			case "byte_set":
				j := pos % len(nb)
				nb[j] ^= byte(1 + (pos/len(nb))%255)
			case "cut_nonce":
				nb = nb[:pos%24]
			case "cut_tag":
				nb = nb[:24+pos%16]
			case "cut_body":
				nb = nb[:40+pos%body]
			case "extend":
				nb = append(nb, bytes.Repeat([]byte{byte(pos)}, 1+pos%3)...)
			case "empty":
				nb = []byte{}
			default:
				panic("unknown damage " + st.str("kind"))
			}
			if b.via == "func" {
				b.ct = nb
			} else {
				e.st.Put(b.node, nb)
			}
			tr.Emit(map[string]interface{}{"ev": "damage", "box": id, "kind": st.str("kind"), "pos": pos, "oldlen": len(cur), "newlen": len(nb), "changed": !bytes.Equal(cur, nb)})
		case "open":
			id := st.num("box", 0)
			b := boxes[id]
			pass := st.str("key")
			out := map[string]interface{}{"ev": "open", "box": id, "key": pass, "same": false, "err": "-", "len": 0, "pos": st.num("pos", -1)}
			var err error
			if b.via == "func" {
				var p []byte
				p, err = kv.V1NodeEncryptor([]byte(pass)).Decrypt("", b.ct)
				if err == nil {
					out["same"] = bytes.Equal(p, b.plain)
					out["len"] = len(p)
				}
			} else {
				var db *kv.DB
				db, err = kv.Open(ctx, fc, kvcfg(b, pass), kv.OpenOptions{ReadOnly: true}, TokTime(200))
				if err == nil {
					same := true
					n := 0
					for k, want := range b.kvs {
						var got string
						found, gerr := db.Get(ctx, k, &got)
						if gerr != nil {
							err = gerr
							break
						}
						if !found || got != want {
							same = false
						}
						n += len(got)
					}
					if err == nil {
						sz, serr := db.Size(), error(nil)
						if serr == nil && int(sz) != len(b.kvs) {
							same = false
						}
					}
					out["same"] = same
					out["len"] = n
					db.Cancel()
				}
			}
			out["outcome"] = classifyErr(err)
			out["err"] = errStr(err)
			tr.Emit(out)
		case "reseal":
			id := st.num("box", 0)
			b := boxes[id]
			out := map[string]interface{}{"ev": "reseal", "box": id, "same_bytes": false, "puts_other": false, "err": "-"}
			var err error
			if b.via == "func" {
				var ct2 []byte
				ct2, err = kv.V1NodeEncryptor([]byte(b.pass)).Encrypt("", b.plain)
				out["same_bytes"] = err == nil && bytes.Equal(ct2, b.orig)
			} else {
				// the same entries written by another handle under the same passphrase to another (empty) prefix:
				// equal plaintext nodes must become byte-identical objects with the same names
				resealN++
				p2 := fmt.Sprintf("%s-again%d", b.prefix, resealN)
				err = writeKVAt(b, b.pass, p2)
				same := err == nil
				if err == nil && b.node == "" {
					k1, k2 := nodeKeys(b), nodeKeysAt(p2)
					same = len(k1) == len(k2)
					for j := 0; same && j < len(k1); j++ {
						v1, _ := e.st.Get(k1[j])
						v2, _ := e.st.Get(k2[j])
						same = strings.TrimPrefix(k1[j], b.prefix) == strings.TrimPrefix(k2[j], p2) && bytes.Equal(v1, v2)
					}
				}
				out["same_bytes"] = same
				out["puts_other"] = len(e.st.RewrittenKeys()) > 0
			}
			out["outcome"] = classifyErr(err)
			out["err"] = errStr(err)
			tr.Emit(out)
		default:
			panic("unknown crypto op " + st.str("op"))
		}
	}
	return ok
}
