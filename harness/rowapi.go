package main

// rowapi.go: statement histories executed directly on the exported Go API of
// the s3db package (s3db.New, VirtualTable.Insert / Update / Delete / Commit),
// without SQLite. It is ~100x faster than the SQL path and is used to run
// EVERY behaviour of the exhaustive single-writer configurations ("one
// implementation test per transition of the model"). Events have the same
// shape as the SQL path's, so Monitor.tla judges them the same way.

import (
	"context"
	"fmt"
	"time"

	"github.com/jrhy/s3db"
	"github.com/jrhy/s3db/writetime"
)

func runRowAPI(tr *Tracer, s *Scenario) (ok bool) {
	e := NewExec(tr, s)
	e.st.logS3 = false
	defer e.Close()
	defer func() {
		if r := recover(); r != nil {
			msg := fmt.Sprintf("%v", r)
			tr.Emit(map[string]interface{}{"ev": "panic", "op": "rowapi", "c": "w", "msg": msg})
			ok = false
		}
	}()
	name := fmt.Sprintf("ra%d", scnSeq)
	args := []string{name, "columns=" + e.colspec, "s3_bucket=" + e.st.name, "s3_endpoint=http://w", "s3_prefix=" + e.prefix}
	if e.epn > 0 {
		args = append(args, fmt.Sprintf("entries_per_node=%d", e.epn))
	}
	vt, err := s3db.New(context.Background(), args)
	if err != nil {
		tr.Emit(map[string]interface{}{"ev": "panic", "op": "rowapi-new", "c": "w", "msg": err.Error()})
		return false
	}
	defer vt.Disconnect()
	visible := func() (map[string]bool, [][]string, error) {
		d := map[string]interface{}{}
		e.dumpDB(vt.Tree.Root, d)
		vis := map[string]bool{}
		rows := [][]string{}
		if d["outcome"] != "ok" {
			return nil, nil, fmt.Errorf("%v", d["err"])
		}
		for _, en := range d["entries"].([]interface{}) {
			m := en.(map[string]interface{})
			if m["live"].(bool) && !m["tomb"].(bool) {
				vis[m["key"].(string)] = true
				r := []string{m["key"].(string)}
				for _, cn := range e.cols {
					v := "NULL"
					for _, c := range m["cols"].([]interface{}) {
						cc := c.([]interface{})
						if cc[0].(string) == cn {
							v = cc[2].(string)
						}
					}
					r = append(r, v)
				}
				rows = append(rows, r)
			}
		}
		return vis, rows, nil
	}
	for i, st := range s.Steps {
		e.stepIdx = i
		switch st.str("op") {
		case "stmt":
			kind, key := st.str("kind"), st.str("key")
			cols := st.strmap("cols")
			wt := st.num("wt", 0)
			ctx := writetime.NewContext(context.Background(), TokTime(wt))
			vals := map[string]string{}
			for _, cn := range e.cols {
				if v, has := cols[cn]; has {
					vals[cn] = v
				} else {
					vals[cn] = "NONE"
				}
			}
			cseq := tr.Emit(map[string]interface{}{"ev": "call", "op": "stmt", "c": "w", "step": i, "kind": kind, "key": key, "vals": vals, "wt": wt, "intx": 0})
			vis, _, verr := visible()
			affected := 0
			var serr error = verr
			if verr == nil {
				switch kind {
				case "ins":
					values := map[int]interface{}{0: mustLit(key)}
					for j, cn := range e.cols {
						if v, has := cols[cn]; has {
							values[j+1] = mustLit(v)
						} else {
							values[j+1] = nil
						}
					}
					_, serr = vt.Insert(ctx, values)
					if serr == nil {
						affected = 1
					}
				case "upd":
					if vis[key] { // SQLite only calls xUpdate for rows the scan returned
						values := map[int]interface{}{}
						for j, cn := range e.cols {
							if v, has := cols[cn]; has {
								values[j+1] = mustLit(v)
							}
						}
						serr = vt.Update(ctx, mustLit(key), values)
						if serr == nil {
							affected = 1
						}
					}
				case "del":
					if vis[key] {
						serr = vt.Delete(ctx, mustLit(key))
						if serr == nil {
							affected = 1
						}
					}
				}
				if serr == nil {
					serr = vt.Commit(ctx)
				}
			}
			outcome := "ok"
			if serr != nil {
				outcome = "error"
				if serr == s3db.ErrS3DBConstraintPrimaryKey {
					outcome = "constraint_pk"
				} else if serr == s3db.ErrS3DBConstraintNotNull {
					outcome = "constraint_notnull"
				}
			}
			tr.Emit(map[string]interface{}{"ev": "stmt", "c": "w", "step": i, "cseq": cseq, "id": st.str("id"), "kind": kind, "key": key,
				"vals": vals, "wt": wt, "intx": 0, "outcome": outcome, "err": errStr(serr), "affected": affected, "dm": 0, "dme": 0, "dr": 0, "api": 1})
			// the registers of the statement's key after the statement (strict conformance of Rows.tla, RowsMonitor.tla)
			d := map[string]interface{}{}
			e.dumpDB(vt.Tree.Root, d)
			if d["outcome"] == "ok" {
				reg := map[string]interface{}{"ev": "regs", "c": "w", "step": i, "key": key, "abs": true, "mod": 0, "st": 0, "live": false, "cols": []interface{}{}}
				for _, en := range d["entries"].([]interface{}) {
					m := en.(map[string]interface{})
					if m["key"].(string) == key {
						reg["abs"], reg["mod"], reg["st"], reg["live"], reg["cols"] = false, m["mod"], m["st"], m["live"], m["cols"]
					}
				}
				tr.Emit(reg)
			}
		case "rows":
			_, rows, verr := visible()
			if rows == nil {
				rows = [][]string{}
			}
			tr.Emit(map[string]interface{}{"ev": "rows", "c": "w", "step": i, "outcome": classifyErr(verr), "err": errStr(verr), "rows": rows, "dm": 0, "dme": 0, "dr": 0})
		}
	}
	_ = time.Now
	return true
}
