------------------------------- MODULE S3db -------------------------------
(***************************************************************************)
(* s3db at API grain: one action per public call, sequentially consistent  *)
(* object store (the request-grain refinement, with interleavings, crashes *)
(* and faults, is Store.tla).                                              *)
(*                                                                         *)
(* Content of a version = the SET of accepted statements ("facts") it has  *)
(* absorbed; rows are DERIVED from facts with Rows!IdealTable.  Versions   *)
(* are numbered in creation order (the harness names them v1, v2, ... in   *)
(* order of first appearance, so model and trace agree on identities).     *)
(*                                                                         *)
(* The module is used three ways:                                          *)
(*  1. TLC checks its invariants exhaustively (small constants);           *)
(*  2. TLC emits its behaviours (variable hist) as JSON scenarios that the *)
(*     harness executes on the real code (spec -> code);                   *)
(*  3. Monitor.tla replays recorded executions through the same facts /    *)
(*     Ideal vocabulary (code -> spec).                                    *)
(***************************************************************************)
EXTENDS Integers, FiniteSets, Sequences, TLC, Json

CONSTANTS Clients,        \* writer identities (strings)
          Keys,           \* key tokens (strings)
          Cols,           \* non-key columns (strings)
          MaxTime,        \* write times 1..MaxTime
          MaxStmts,       \* bound on accepted statements
          MaxOpens,       \* bound on (re)opens / refreshes after the initial ones
          MaxPerm,        \* permutation indices 0..MaxPerm-1 offered at opens that list >= 2 versions
          Partial,        \* TRUE: statements may assign any non-empty subset of Cols
          WithTx,         \* TRUE: BEGIN/COMMIT/ROLLBACK actions enabled
          MaxTx           \* bound on the number of BEGINs

R == INSTANCE Rows

Times == 1..MaxTime
ColSets == IF Partial THEN (SUBSET Cols) \ {{}} ELSE {Cols}

(* a fact: an accepted statement.  cs = assigned columns; the value a      *)
(* statement assigns to column c is the token <<c, wt>> (concretised by    *)
(* the harness), so a fact determines its values.                          *)
Fact(kind, key, cs, wt) == [kind |-> kind, key |-> key, cs |-> cs, wt |-> wt]
AsStmt(f) == [kind |-> f.kind, key |-> f.key, wt |-> f.wt, n |-> 0,
              cols |-> [c \in (IF f.kind = "ins" THEN Cols ELSE f.cs) |->
                          IF c \in f.cs THEN c \o ToString(f.wt) ELSE R!NullV]]
Stmts(F) == {AsStmt(f) : f \in F}
RowsOf(F) == R!IdealTable(Stmts(F))
LiveIn(F, k) == R!IdealLive({s \in Stmts(F) : s.key = k})
(* time of the latest INSERT/DELETE of key k in F (NoTime if none) *)
StatusTime(F, k) == LET ID == {f \in F : f.key = k /\ f.kind \in {"ins", "del"}} IN
                    IF ID = {} THEN R!NoTime ELSE R!SetMax({f.wt : f \in ID})

VARIABLES
  cur,      \* version ids under root/current/
  mrg,      \* version ids under root/merged/
  ver,      \* sequence: ver[i] = [facts, parents] of version i (immutable)
  cl,       \* per client: [open, ro, facts, src, snap, tx]
  used,     \* <<key, wt>> pairs already used by a statement
  nst, nop, ntx, \* counters
  hist      \* the scenario so far (sequence of step records)

vars == <<cur, mrg, ver, cl, used, nst, nop, ntx, hist>>

Closed == [open |-> FALSE, ro |-> FALSE, facts |-> {}, src |-> {}, snap |-> {}, tx |-> FALSE]

Init ==
  /\ cur = {} /\ mrg = {} /\ ver = <<>>
  /\ cl = [c \in Clients |-> Closed]
  /\ used = {} /\ nst = 0 /\ nop = 0 /\ ntx = 0 /\ hist = <<>>

FactsOf(V) == UNION {ver[v].facts : v \in V}

(* Open / refresh: merge everything listed.  A read-write opener that      *)
(* merged two or more versions commits the merge and retires its parents.  *)
DoOpen(c, ro, perm, isRefresh) ==
  LET F == FactsOf(cur)
      merges == ~ro /\ Cardinality(cur) >= 2
      n == Len(ver) + 1
  IN /\ ~cl[c].tx
     /\ IF merges
        THEN /\ ver' = Append(ver, [facts |-> F, parents |-> cur])
             /\ cur' = {n}
             /\ mrg' = mrg \cup cur
             /\ cl' = [cl EXCEPT ![c] = [open |-> TRUE, ro |-> ro, facts |-> F, src |-> {n}, snap |-> {}, tx |-> FALSE]]
        ELSE /\ UNCHANGED <<ver, cur, mrg>>
             /\ cl' = [cl EXCEPT ![c] = [open |-> TRUE, ro |-> ro, facts |-> F, src |-> cur, snap |-> {}, tx |-> FALSE]]
     /\ hist' = Append(hist, [op |-> IF isRefresh THEN "refresh" ELSE "open", c |-> c,
                              mode |-> IF ro THEN "ro" ELSE "rw", perm |-> perm])
     /\ UNCHANGED <<used, nst, ntx>>

PermRange == IF Cardinality(cur) >= 2 THEN 0..(MaxPerm - 1) ELSE {0}

FirstOpen(c) == /\ ~cl[c].open
                /\ \E perm \in PermRange : DoOpen(c, FALSE, perm, FALSE)
                /\ UNCHANGED nop

Refresh(c) == /\ cl[c].open /\ nop < MaxOpens
              /\ cur # cl[c].src                    \* something new to see
              /\ \E perm \in PermRange : DoOpen(c, cl[c].ro, perm, TRUE)
              /\ nop' = nop + 1

(* the commit of client c's local facts F as a new version *)
Publish(c, F) ==
  LET n == Len(ver) + 1 IN
  /\ ver' = Append(ver, [facts |-> F, parents |-> cl[c].src])
  /\ cur' = (cur \ cl[c].src) \cup {n}
  /\ mrg' = mrg \cup cl[c].src

(* One INSERT / UPDATE / DELETE of one key.  Enabled only when the         *)
(* statement is accepted in the client's view (the README rule decides),   *)
(* each <<key, wt>> is used by at most one statement.                      *)
Stmt(c) ==
  /\ cl[c].open /\ ~cl[c].ro /\ nst < MaxStmts
  /\ \E kind \in {"ins", "upd", "del"}, k \in Keys, cs \in ColSets, t \in Times :
       /\ <<k, t>> \notin used
       /\ kind = "del" => cs = Cols              \* cs is irrelevant for DELETE: one representative
       /\ LET live == LiveIn(cl[c].facts, k)
              f == Fact(kind, k, IF kind = "del" THEN {} ELSE cs, t)
              F == cl[c].facts \cup {f}
          IN /\ IF kind = "ins" THEN ~live /\ StatusTime(cl[c].facts, k) < t ELSE live
             /\ used' = used \cup {<<k, t>>}
             /\ nst' = nst + 1
             /\ IF cl[c].tx
                THEN /\ cl' = [cl EXCEPT ![c].facts = F]
                     /\ UNCHANGED <<ver, cur, mrg>>
                ELSE /\ Publish(c, F)
                     /\ cl' = [cl EXCEPT ![c].facts = F, ![c].src = {Len(ver) + 1}]
             /\ hist' = Append(hist, [op |-> "stmt", c |-> c, kind |-> kind, key |-> k,
                                      cs |-> f.cs, wt |-> t, intx |-> IF cl[c].tx THEN 1 ELSE 0])
  /\ UNCHANGED <<nop, ntx>>

Begin(c) ==
  /\ WithTx /\ cl[c].open /\ ~cl[c].ro /\ ~cl[c].tx /\ nst < MaxStmts /\ ntx < MaxTx
  /\ cl' = [cl EXCEPT ![c].tx = TRUE, ![c].snap = cl[c].facts]
  /\ hist' = Append(hist, [op |-> "begin", c |-> c])
  /\ ntx' = ntx + 1
  /\ UNCHANGED <<cur, mrg, ver, used, nst, nop>>

Commit(c) ==
  /\ cl[c].tx
  /\ IF cl[c].facts # cl[c].snap
     THEN /\ Publish(c, cl[c].facts)
          /\ cl' = [cl EXCEPT ![c].tx = FALSE, ![c].snap = {}, ![c].src = {Len(ver) + 1}]
     ELSE /\ UNCHANGED <<ver, cur, mrg>>
          /\ cl' = [cl EXCEPT ![c].tx = FALSE, ![c].snap = {}]
  /\ hist' = Append(hist, [op |-> "commit", c |-> c])
  /\ UNCHANGED <<used, nst, nop, ntx>>

Rollback(c) ==
  /\ cl[c].tx
  /\ cl' = [cl EXCEPT ![c].tx = FALSE, ![c].facts = cl[c].snap, ![c].snap = {}]
  /\ hist' = Append(hist, [op |-> "rollback", c |-> c])
  /\ UNCHANGED <<cur, mrg, ver, used, nst, nop, ntx>>

Done == nst = MaxStmts /\ \A c \in Clients : ~cl[c].tx

Next == /\ ~Done
        /\ \E c \in Clients : FirstOpen(c) \/ Refresh(c) \/ Stmt(c) \/ Begin(c) \/ Commit(c) \/ Rollback(c)

Spec == Init /\ [][Next]_vars

---------------------------------------------------------------------------
(* Invariants of the design at this grain.                                 *)
TypeOK == /\ cur \subseteq 1..Len(ver) /\ mrg \subseteq 1..Len(ver)
          /\ cur \cap mrg = {}
          /\ \A c \in Clients : cl[c].src \subseteq 1..Len(ver)

Committed == UNION {ver[v].facts : v \in 1..Len(ver)}

(* C03 (sequential form): nothing committed is ever missing from the union *)
(* of the current versions.                                                *)
C03_NothingLost == Committed \subseteq FactsOf(cur)

(* C01: the view of a client is a function of the versions it merged.      *)
C01_ViewIsClosure == \A c \in Clients : (cl[c].open /\ ~cl[c].tx /\ cl[c].src # {}) => cl[c].facts = FactsOf(cl[c].src)

(* C01 (fixpoint): a quiescent bucket has at most one current version      *)
(* after any read-write open.                                              *)
C05_NoLeak == \A c \in Clients : cl[c].tx => (cl[c].facts \ cl[c].snap) \cap Committed = {}

(* the precondition of C01/C02 is maintained by the generator *)
DistinctTimes == R!DistinctTimes(Stmts(Committed))

(* C11: a version's content never changes (action property).               *)
C11_Immutable == [][\A i \in 1..Len(ver) : ver'[i] = ver[i]]_vars

---------------------------------------------------------------------------
(* Scenario emission: one JSON line per completed behaviour.               *)
Emit == Done => PrintT(<<"BEHAVIOUR", ToJson(hist)>>)
=============================================================================
