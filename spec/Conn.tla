-------------------------------- MODULE Conn --------------------------------
(***************************************************************************)
(* The per-connection attribute block of s3db (sqlite/vtable.go S3DBConn,  *)
(* sqlite/s3db_conn.go) as a state machine: write_time and deadline are    *)
(* set, cleared and read back through the s3db_conn table; BEGIN fixes one *)
(* write time for a transaction that has none; statements are stamped with *)
(* the write time in force; an expired deadline fails the calls issued     *)
(* while it is set.  Generator for C15 (and the attribute part of C19):    *)
(* every operation carries the EXPECTED stamp / read-back values, which    *)
(* the monitor compares with the registers and results of the real code.   *)
(***************************************************************************)
EXTENDS Integers, Sequences, TLC, Json

CONSTANTS Times,   \* write_time tokens the user may set
          MaxOps

Unset == -1
Now == -999          \* "the real clock": the harness logs any real-clock time as -999

VARIABLES wt,       \* the write_time the user set (Unset = none)
          dl,       \* "none" | "future" | "past"
          intx,     \* inside BEGIN..COMMIT
          txnow,    \* the transaction was begun without a write_time: one real-clock time is in force for it
          nst, nops, hist
vars == <<wt, dl, intx, txnow, nst, nops, hist>>

Init == wt = Unset /\ dl = "none" /\ intx = FALSE /\ txnow = FALSE /\ nst = 0 /\ nops = 0 /\ hist = <<>>

Stamp == IF wt # Unset THEN wt ELSE Now
Step(rec) == nops < MaxOps /\ nops' = nops + 1 /\ hist' = Append(hist, rec)

SetWT(t) == /\ Step([op |-> "set_wt", t |-> t])
            /\ wt' = t /\ txnow' = FALSE /\ UNCHANGED <<dl, intx, nst>>
(* clearing inside a transaction that runs on its BEGIN time would give its later statements separate times: not generated *)
ClearWT == /\ wt # Unset
           /\ Step([op |-> "clear_wt"])
           /\ wt' = Unset /\ txnow' = FALSE /\ UNCHANGED <<dl, intx, nst>>
(* deadlines are exercised outside transactions *)
SetDL(k) == /\ ~intx /\ dl # k
            /\ Step([op |-> "set_dl", kind |-> k])
            /\ dl' = k /\ UNCHANGED <<wt, intx, txnow, nst>>
ClearDL == /\ ~intx /\ dl # "none"
           /\ Step([op |-> "clear_dl"])
           /\ dl' = "none" /\ UNCHANGED <<wt, intx, txnow, nst>>
Begin == /\ ~intx /\ dl # "past"
         /\ Step([op |-> "begin"])
         /\ intx' = TRUE /\ txnow' = (wt = Unset) /\ UNCHANGED <<wt, dl, nst>>
End(o) == /\ intx
          /\ Step([op |-> o])
          /\ intx' = FALSE /\ txnow' = FALSE /\ UNCHANGED <<wt, dl, nst>>
(* INSERT of a fresh key: stamped with the write time in force; fails iff the deadline has passed *)
Stmt == /\ Step([op |-> "stmt", n |-> nst + 1, wt |-> Stamp, intx |-> intx, fails |-> (dl = "past")])
        /\ nst' = nst + 1 /\ UNCHANGED <<wt, dl, intx, txnow>>
(* read the attributes back (not inside a transaction running on its BEGIN time: what write_time shows there is not decided) *)
Get == /\ ~txnow
       /\ Step([op |-> "get", wt |-> wt, dl |-> dl])
       /\ UNCHANGED <<wt, dl, intx, txnow, nst>>
Refresh == /\ ~intx
           /\ Step([op |-> "refresh", fails |-> (dl = "past")])
           /\ UNCHANGED <<wt, dl, intx, txnow, nst>>

Done == nops = MaxOps /\ ~intx
Next == /\ ~Done
        /\ \/ \E t \in Times : SetWT(t)
           \/ ClearWT \/ (\E k \in {"future", "past"} : SetDL(k)) \/ ClearDL
           \/ Begin \/ End("commit") \/ End("rollback") \/ Stmt \/ Get \/ Refresh
Spec == Init /\ [][Next]_vars

(* design-level sanity *)
TxNowOnlyInTx == txnow => intx /\ wt = Unset
Emit == (nops = MaxOps) => PrintT(<<"BEHAVIOUR", ToJson(hist)>>)
=============================================================================
