-------------------------------- MODULE Conn --------------------------------
(***************************************************************************)
(* The per-connection attribute block of s3db (sqlite/vtable.go S3DBConn,  *)
(* sqlite/s3db_conn.go) as a state machine: write_time and deadline are    *)
(* set, cleared and read back through the s3db_conn table; the first write *)
(* of a transaction that has no write time fixes one real-clock time for   *)
(* the rest of it (SQLite calls xBegin at the first write, not at BEGIN);  *)
(* statements are stamped with the write time in force; an expired         *)
(* deadline fails the calls issued while it is set.  Generator for C15 (and the attribute part of C19):    *)
(* every operation carries the EXPECTED stamp / read-back values, which    *)
(* the monitor compares with the registers and results of the real code.   *)
(***************************************************************************)
EXTENDS Integers, Sequences, TLC, Json

CONSTANTS Times,   \* write_time tokens the user may set
          MaxOps

Unset == -1
Now == -999          \* "the real clock": the harness logs any real-clock time as -999

VARIABLES wt,       \* the write_time the user set (Unset = none)
          dl,       \* "none" | "future" | "past"
          intx,     \* inside BEGIN..COMMIT
          vbegun,   \* the table has joined the transaction (SQLite calls xBegin at the FIRST WRITE of a transaction, not at BEGIN)
          txnow,    \* ... and had no write_time then: one real-clock time is in force for the rest of the transaction
          nst, nops, hist
vars == <<wt, dl, intx, vbegun, txnow, nst, nops, hist>>

Init == wt = Unset /\ dl = "none" /\ intx = FALSE /\ vbegun = FALSE /\ txnow = FALSE /\ nst = 0 /\ nops = 0 /\ hist = <<>>

Stamp == IF wt # Unset THEN wt ELSE Now
Step(rec) == nops < MaxOps /\ nops' = nops + 1 /\ hist' = Append(hist, rec)

SetWT(t) == /\ Step([op |-> "set_wt", t |-> t])
            /\ wt' = t /\ txnow' = FALSE /\ UNCHANGED <<dl, intx, vbegun, nst>>
(* clearing inside a transaction that runs on its BEGIN time would give its later statements separate times: not generated *)
ClearWT == /\ wt # Unset
           /\ Step([op |-> "clear_wt"])
           /\ wt' = Unset /\ txnow' = FALSE /\ UNCHANGED <<dl, intx, vbegun, nst>>
(* an expired deadline is set outside transactions only (inside one it would fail the COMMIT); a future one anywhere: *)
(* it leaves the write time in force, and the transaction's own time, alone                                         *)
SetDL(k) == /\ (intx => k = "future") /\ dl # k
            /\ Step([op |-> "set_dl", kind |-> k])
            /\ dl' = k /\ UNCHANGED <<wt, intx, vbegun, txnow, nst>>
ClearDL == /\ dl # "none" /\ (intx => dl = "future")
           /\ Step([op |-> "clear_dl"])
           /\ dl' = "none" /\ UNCHANGED <<wt, intx, vbegun, txnow, nst>>
Begin == /\ ~intx /\ dl # "past"
         /\ Step([op |-> "begin"])
         /\ intx' = TRUE /\ vbegun' = FALSE /\ txnow' = FALSE /\ UNCHANGED <<wt, dl, nst>>
End(o) == /\ intx
          /\ Step([op |-> o])
          /\ intx' = FALSE /\ vbegun' = FALSE /\ txnow' = FALSE /\ UNCHANGED <<wt, dl, nst>>
(* INSERT of a fresh key: stamped with the write time in force; fails iff the deadline has passed *)
Stmt == /\ Step([op |-> "stmt", n |-> nst + 1, wt |-> Stamp, intx |-> intx, fails |-> (dl = "past")])
        /\ vbegun' = (intx \/ vbegun)
        /\ txnow' = IF intx /\ ~vbegun THEN (wt = Unset) ELSE txnow
        /\ nst' = nst + 1 /\ UNCHANGED <<wt, dl, intx>>
(* read the attributes back (not inside a transaction running on its BEGIN time: what write_time shows there is not decided) *)
Get == /\ ~txnow
       /\ Step([op |-> "get", wt |-> wt, dl |-> dl])
       /\ UNCHANGED <<wt, dl, intx, vbegun, txnow, nst>>
Refresh == /\ ~intx
           /\ Step([op |-> "refresh", fails |-> (dl = "past")])
           /\ UNCHANGED <<wt, dl, intx, vbegun, txnow, nst>>

Done == nops = MaxOps /\ ~intx
Next == /\ ~Done
        /\ \/ \E t \in Times : SetWT(t)
           \/ ClearWT \/ (\E k \in {"future", "past"} : SetDL(k)) \/ ClearDL
           \/ Begin \/ End("commit") \/ End("rollback") \/ Stmt \/ Get \/ Refresh
Spec == Init /\ [][Next]_vars

(* design-level sanity *)
TxNowOnlyInTx == txnow => intx /\ vbegun /\ wt = Unset
Emit == (nops = MaxOps) => PrintT(<<"BEHAVIOUR", ToJson(hist)>>)
=============================================================================
