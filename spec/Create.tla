------------------------------- MODULE Create -------------------------------
(***************************************************************************)
(* Generator of CREATE VIRTUAL TABLE argument lists (C20): builds a column *)
(* specification column by column, optionally a table-level PRIMARY KEY    *)
(* clause, then a list of further arguments, and finally places the        *)
(* columns argument among them (or leaves it out).  Every finished list    *)
(* is emitted with the verdict and the declared table of CreateOps.        *)
(***************************************************************************)
EXTENDS CreateOps, TLC, Json

CONSTANTS NameIds,     \* name ids of columns (equal ids = duplicate column)
          Types,       \* subset of {"none", "text", "integer", "real", "varchar", "number"}
          Extras,      \* subset of {"none", "unique", "default"}
          MaxCols, MaxOpts,
          TpkChoices,  \* set of sequences of name ids (0 = unknown name) for PRIMARY KEY (...)
          OptAlphabet, \* set of [opt, form] for the further arguments
          AllowNoColumns

VARIABLES phase, cols, tpk, opts, args
vars == <<phase, cols, tpk, opts, args>>

ColDefs == [name : NameIds, type : Types, pk : BOOLEAN, nn : BOOLEAN, extra : Extras]

Init == phase = "cols" /\ cols = <<>> /\ tpk = <<>> /\ opts = <<>> /\ args = <<>>

AddCol == /\ phase = "cols" /\ Len(cols) < MaxCols
          /\ \E d \in ColDefs : cols' = Append(cols, d)
          /\ UNCHANGED <<phase, tpk, opts, args>>
EndCols == /\ phase = "cols"
           /\ \E t \in TpkChoices : tpk' = t
           /\ phase' = "opts" /\ UNCHANGED <<cols, opts, args>>
AddOpt == /\ phase = "opts" /\ Len(opts) < MaxOpts
          /\ \E o \in OptAlphabet : opts' = Append(opts, [opt |-> o.opt, form |-> o.form, spec |-> NoSpec])
          /\ UNCHANGED <<phase, cols, tpk, args>>
InsertAt(s, i, x) == SubSeq(s, 1, i) \o <<x>> \o SubSeq(s, i + 1, Len(s))
Finish == /\ phase = "opts"
          /\ \/ \E i \in 0..Len(opts) : args' = InsertAt(opts, i, [opt |-> "columns", form |-> "ok", spec |-> [cols |-> cols, tpk |-> tpk]])
             \/ AllowNoColumns /\ cols = <<>> /\ tpk = <<>> /\ args' = opts
          /\ phase' = "done" /\ UNCHANGED <<cols, tpk, opts>>

Next == AddCol \/ EndCols \/ AddOpt \/ Finish
Spec == Init /\ [][Next]_vars

---------------------------------------------------------------------------
(* sanity of the operators on everything generated *)
KeyIsUnique == phase = "done" /\ Accepted(args) =>
                 LET d == Declared(TheSpec(args)) IN Cardinality({i \in DOMAIN d : d[i].pk}) <= 1
KeyRefusesNull == phase = "done" /\ Accepted(args) =>
                 LET d == Declared(TheSpec(args)) IN \A i \in DOMAIN d : d[i].pk => d[i].refuses_null
RejectedHasReason == phase = "done" /\ ~Accepted(args) =>
                 \/ Cardinality(ColumnsArgs(args)) # 1
                 \/ ~NoDuplicates(args)
                 \/ \E i \in DOMAIN args : ~ArgValid(args[i])

Emit == phase = "done" =>
          PrintT(<<"BEHAVIOUR", ToJson([args |-> args, accepted |-> Accepted(args),
                                        declared |-> IF Accepted(args) THEN Declared(TheSpec(args)) ELSE <<>>,
                                        haskey |-> IF Accepted(args) THEN HasKey(args) ELSE FALSE])>>)
=============================================================================
