------------------------------- MODULE Store -------------------------------
(***************************************************************************)
(* Open / commit / retire at the grain of individual object-store requests *)
(* (kv/kv.go Open -> listRoots, mergeRoots -> loadRootFromAny; DB.Commit,  *)
(* moveMergedRoots), with a program counter per client so that TLC         *)
(* interleaves the requests of several clients, and with a Crash action    *)
(* that is enabled at every program counter.                               *)
(*                                                                         *)
(* Version content = set of facts (small integers here); the row level is  *)
(* Rows.tla's business.  Node objects are written before the version       *)
(* object and are immutable, so they are folded into PutVersion.           *)
(*                                                                         *)
(* Requests (one action each):                                             *)
(*   OpenList      LIST root/current/                                      *)
(*   OpenGet1      GET  <first place>/v     (Lookup[1])                    *)
(*   OpenGet2      GET  <second place>/v    (Lookup[2], after a 404)       *)
(*   PutVersion    PUT  root/current/<new>                                 *)
(*   RetireCopy    PUT  root/merged/p                                      *)
(*   RetireDelete  DELETE root/current/p                                   *)
(* Local steps: OpenDone, Write, CommitStart, CommitReturn (the            *)
(* acknowledgement), Close.                                                *)
(*                                                                         *)
(* Lookup and CommitOrder are constants so that the design alternatives    *)
(* can be model-checked: Lookup = <<"cur">> is the code before repair D5   *)
(* (TLC: C03_OpenSeesAcked violated), <<"cur","mrg">> the repaired code,   *)
(* <<"mrg","cur">> and CommitOrder = "retire_first" are plausible          *)
(* regressions that TLC refutes.                                           *)
(***************************************************************************)
EXTENDS Integers, FiniteSets, Sequences, TLC, Json

CONSTANTS Clients, ReadOnly, MaxVer, MaxFacts, MaxOpens, Lookup, CommitOrder, WithCrash

VARIABLES current, merged,        \* bucket: version ids under root/current/, root/merged/
          ver,                    \* sequence: ver[i] = [facts, parents]
          pc, listed, loaded, want, view, sources, dirty, retire, rphase, newv,
          acked, ackedAtStart, openOK, nfacts, nopen, hist
vars == <<current, merged, ver, pc, listed, loaded, want, view, sources, dirty, retire, rphase, newv,
          acked, ackedAtStart, openOK, nfacts, nopen, hist>>
View == <<current, merged, ver, pc, listed, loaded, want, view, sources, dirty, retire, rphase, newv,
          acked, ackedAtStart, openOK, nfacts, nopen>>

FactsOf(S) == UNION {ver[v].facts : v \in S}
NVer == Len(ver)
Places == [cur |-> current, mrg |-> merged]
H(c, a) == hist' = Append(hist, [c |-> c, a |-> a])

Init == /\ current = {} /\ merged = {} /\ ver = <<>>
        /\ pc = [c \in Clients |-> "idle"]
        /\ listed = [c \in Clients |-> {}] /\ loaded = [c \in Clients |-> {}]
        /\ want = [c \in Clients |-> 0]
        /\ view = [c \in Clients |-> {}] /\ sources = [c \in Clients |-> {}]
        /\ dirty = [c \in Clients |-> FALSE]
        /\ retire = [c \in Clients |-> {}] /\ rphase = [c \in Clients |-> 0]
        /\ newv = [c \in Clients |-> {}]
        /\ acked = {} /\ ackedAtStart = [c \in Clients |-> {}]
        /\ openOK = [c \in Clients |-> TRUE]
        /\ nfacts = 0 /\ nopen = 0 /\ hist = <<>>

OpenList(c) ==
  /\ pc[c] = "idle" /\ nopen < MaxOpens
  /\ listed' = [listed EXCEPT ![c] = current]
  /\ loaded' = [loaded EXCEPT ![c] = {}]
  /\ ackedAtStart' = [ackedAtStart EXCEPT ![c] = acked]
  /\ pc' = [pc EXCEPT ![c] = "get"]
  /\ nopen' = nopen + 1
  /\ H(c, "open")
  /\ UNCHANGED <<current, merged, ver, want, view, sources, dirty, retire, rphase, newv, acked, openOK, nfacts>>

(* first lookup of some listed version, in any order (the shuffle) *)
OpenGet1(c) ==
  /\ pc[c] = "get" /\ listed[c] # {} /\ want[c] = 0
  /\ \E v \in listed[c] :
       IF v \in Places[Lookup[1]]
       THEN /\ loaded' = [loaded EXCEPT ![c] = @ \cup {v}]
            /\ listed' = [listed EXCEPT ![c] = @ \ {v}]
            /\ UNCHANGED want
       ELSE IF Len(Lookup) = 1
       THEN /\ listed' = [listed EXCEPT ![c] = @ \ {v}]      \* 404: skipped
            /\ UNCHANGED <<loaded, want>>
       ELSE /\ want' = [want EXCEPT ![c] = v]                 \* 404: try the second place
            /\ UNCHANGED <<loaded, listed>>
  /\ H(c, "req")
  /\ UNCHANGED <<current, merged, ver, pc, view, sources, dirty, retire, rphase, newv, acked, ackedAtStart, openOK, nfacts, nopen>>

OpenGet2(c) ==
  /\ pc[c] = "get" /\ want[c] # 0
  /\ LET v == want[c] IN
     /\ loaded' = [loaded EXCEPT ![c] = IF v \in Places[Lookup[2]] THEN @ \cup {v} ELSE @]
     /\ listed' = [listed EXCEPT ![c] = @ \ {v}]
  /\ want' = [want EXCEPT ![c] = 0]
  /\ H(c, "req")
  /\ UNCHANGED <<current, merged, ver, pc, view, sources, dirty, retire, rphase, newv, acked, ackedAtStart, openOK, nfacts, nopen>>

OpenDone(c) ==
  /\ pc[c] = "get" /\ listed[c] = {} /\ want[c] = 0
  /\ view' = [view EXCEPT ![c] = FactsOf(loaded[c])]
  /\ sources' = [sources EXCEPT ![c] = loaded[c]]
  /\ openOK' = [openOK EXCEPT ![c] = FactsOf(ackedAtStart[c]) \subseteq FactsOf(loaded[c])]
  /\ dirty' = [dirty EXCEPT ![c] = FALSE]
  /\ pc' = [pc EXCEPT ![c] = IF c \notin ReadOnly /\ Cardinality(loaded[c]) >= 2 THEN "commit" ELSE "open"]
  /\ hist' = hist
  /\ UNCHANGED <<current, merged, ver, listed, loaded, want, retire, rphase, newv, acked, ackedAtStart, nfacts, nopen>>

Write(c) ==
  /\ pc[c] = "open" /\ c \notin ReadOnly /\ nfacts < MaxFacts /\ ~dirty[c]
  /\ nfacts' = nfacts + 1
  /\ view' = [view EXCEPT ![c] = @ \cup {nfacts + 1}]
  /\ dirty' = [dirty EXCEPT ![c] = TRUE]
  /\ pc' = [pc EXCEPT ![c] = "commit"]          \* autocommit: the statement's commit follows
  /\ H(c, "write")
  /\ UNCHANGED <<current, merged, ver, listed, loaded, want, sources, retire, rphase, newv, acked, ackedAtStart, openOK, nopen>>

DoPut(c) ==
  /\ ver' = Append(ver, [facts |-> view[c], parents |-> sources[c]])
  /\ current' = current \cup {NVer + 1}
  /\ newv' = [newv EXCEPT ![c] = {NVer + 1}]

(* CommitOrder = "put_first": PUT the new version, then retire the parents (the code).        *)
(* CommitOrder = "retire_first": retire the parents, then PUT the new version (a regression). *)
PutVersion(c) ==
  /\ NVer < MaxVer
  /\ \/ /\ CommitOrder = "put_first" /\ pc[c] = "commit"
        /\ DoPut(c)
        /\ retire' = [retire EXCEPT ![c] = sources[c]]
        /\ rphase' = [rphase EXCEPT ![c] = 0]
        /\ pc' = [pc EXCEPT ![c] = "retire"]
     \/ /\ CommitOrder = "retire_first" /\ pc[c] = "putlast"
        /\ DoPut(c)
        /\ pc' = [pc EXCEPT ![c] = "ack"]
        /\ UNCHANGED <<retire, rphase>>
  /\ H(c, "req")
  /\ UNCHANGED <<merged, listed, loaded, want, view, sources, dirty, acked, ackedAtStart, openOK, nfacts, nopen>>

StartRetireFirst(c) ==
  /\ CommitOrder = "retire_first" /\ pc[c] = "commit"
  /\ retire' = [retire EXCEPT ![c] = sources[c]]
  /\ rphase' = [rphase EXCEPT ![c] = 0]
  /\ pc' = [pc EXCEPT ![c] = "retire"]
  /\ hist' = hist
  /\ UNCHANGED <<current, merged, ver, listed, loaded, want, view, sources, dirty, newv, acked, ackedAtStart, openOK, nfacts, nopen>>

RetireCopy(c) ==
  /\ pc[c] = "retire" /\ retire[c] # {} /\ rphase[c] = 0
  /\ \E p \in retire[c] :
       /\ merged' = merged \cup {p}
       /\ rphase' = [rphase EXCEPT ![c] = p]
  /\ H(c, "req")
  /\ UNCHANGED <<current, ver, pc, listed, loaded, want, view, sources, dirty, retire, newv, acked, ackedAtStart, openOK, nfacts, nopen>>

RetireDelete(c) ==
  /\ pc[c] = "retire" /\ rphase[c] # 0
  /\ current' = current \ {rphase[c]}
  /\ retire' = [retire EXCEPT ![c] = @ \ {rphase[c]}]
  /\ rphase' = [rphase EXCEPT ![c] = 0]
  /\ H(c, "req")
  /\ UNCHANGED <<merged, ver, pc, listed, loaded, want, view, sources, dirty, newv, acked, ackedAtStart, openOK, nfacts, nopen>>

RetireDone(c) ==
  /\ pc[c] = "retire" /\ retire[c] = {} /\ rphase[c] = 0
  /\ pc' = [pc EXCEPT ![c] = IF CommitOrder = "put_first" THEN "ack" ELSE "putlast"]
  /\ hist' = hist
  /\ UNCHANGED <<current, merged, ver, listed, loaded, want, view, sources, dirty, retire, rphase, newv, acked, ackedAtStart, openOK, nfacts, nopen>>

CommitReturn(c) ==
  /\ pc[c] = "ack"
  /\ acked' = acked \cup newv[c]
  /\ sources' = [sources EXCEPT ![c] = newv[c]]
  /\ dirty' = [dirty EXCEPT ![c] = FALSE]
  /\ pc' = [pc EXCEPT ![c] = "open"]
  /\ hist' = hist
  /\ UNCHANGED <<current, merged, ver, listed, loaded, want, view, retire, rphase, newv, ackedAtStart, openOK, nfacts, nopen>>

Close(c) ==
  /\ pc[c] = "open" /\ ~dirty[c]
  /\ pc' = [pc EXCEPT ![c] = "idle"]
  /\ H(c, "close")
  /\ UNCHANGED <<current, merged, ver, listed, loaded, want, view, sources, dirty, retire, rphase, newv, acked, ackedAtStart, openOK, nfacts, nopen>>

(* the process dies: volatile state is lost, the bucket stays as it is *)
Crash(c) ==
  /\ WithCrash /\ pc[c] \notin {"idle"}
  /\ pc' = [pc EXCEPT ![c] = "idle"]
  /\ listed' = [listed EXCEPT ![c] = {}] /\ loaded' = [loaded EXCEPT ![c] = {}] /\ want' = [want EXCEPT ![c] = 0]
  /\ view' = [view EXCEPT ![c] = {}] /\ sources' = [sources EXCEPT ![c] = {}] /\ dirty' = [dirty EXCEPT ![c] = FALSE]
  /\ retire' = [retire EXCEPT ![c] = {}] /\ rphase' = [rphase EXCEPT ![c] = 0] /\ newv' = [newv EXCEPT ![c] = {}]
  /\ openOK' = [openOK EXCEPT ![c] = TRUE]
  /\ H(c, "crash")
  /\ UNCHANGED <<current, merged, ver, acked, ackedAtStart, nfacts, nopen>>

Next == \E c \in Clients : OpenList(c) \/ OpenGet1(c) \/ OpenGet2(c) \/ OpenDone(c) \/ Write(c)
                           \/ PutVersion(c) \/ StartRetireFirst(c) \/ RetireCopy(c) \/ RetireDelete(c) \/ RetireDone(c)
                           \/ CommitReturn(c) \/ Close(c) \/ Crash(c)
Spec == Init /\ [][Next]_vars

---------------------------------------------------------------------------
(* C03: an opener's view contains every version acknowledged before its open began *)
C03_OpenSeesAcked == \A c \in Clients : openOK[c]
(* C03: nothing acknowledged is ever missing from what a fresh open would see: the     *)
(* union of the versions under root/current/ (a fresh open lists exactly those)         *)
C03_NothingLost == FactsOf(acked) \subseteq FactsOf(current)
(* C04: whatever the crash points, a fresh open sees either all or none of every        *)
(* version's own new fact set relative to its parents... at this grain: the facts a     *)
(* fresh open sees are a union of whole versions (no partial version exists), and every *)
(* version ever PUT that is still needed is reachable: facts never disappear.           *)
C04_FactsNeverDisappear == [][FactsOf(current) \subseteq UNION {ver'[v].facts : v \in current'}]_vars
(* C16: a version under root/current/ or root/merged/ exists in ver (it was PUT whole)  *)
TypeOK == current \subseteq 1..NVer /\ merged \subseteq 1..NVer

LookupCur == <<"cur">>
LookupCurMrg == <<"cur", "mrg">>
LookupMrgCur == <<"mrg", "cur">>

Quiet == \A c \in Clients : pc[c] \in {"idle", "open"}
Done == nfacts = MaxFacts /\ Quiet
Emit == Done => PrintT(<<"BEHAVIOUR", ToJson(hist)>>)
=============================================================================
