------------------------------ MODULE KeyOrder ------------------------------
(***************************************************************************)
(* The key domain of C07.  A key is abstract: numeric keys are POSITIONS   *)
(* on one number line, tagged INTEGER or REAL - two keys of different tag  *)
(* at the same position are numerically equal ("twins") and must be ONE    *)
(* key; then come TEXT positions (bytewise order), then BLOB positions.    *)
(* The harness maps positions to concrete boundary values (int64 extremes, *)
(* 2^53 and its neighbours, +-0, denormals, infinities, empty and          *)
(* non-ASCII text, empty blobs ...) whose true order is known by           *)
(* construction and cross-checked against native SQLite.                   *)
(*                                                                         *)
(* Cmp is SQLite's order.  TLC checks that it is a total preorder whose    *)
(* equivalence is exactly "same position, both numeric" and generates the  *)
(* scenarios: every ordered pair (compare both ways; insert a then b into  *)
(* trees of several depths; look both up; ORDER BY).                       *)
(***************************************************************************)
EXTENDS Integers, FiniteSets, Sequences, TLC, Json

CONSTANTS IntPos,    \* numeric positions that have an INTEGER representative
          RealPos,   \* numeric positions that have a REAL representative
          NText,     \* number of TEXT positions
          NBlob      \* number of BLOB positions

Keys == {[cls |-> "num", pos |-> p, tag |-> "int"] : p \in IntPos}
        \cup {[cls |-> "num", pos |-> p, tag |-> "real"] : p \in RealPos}
        \cup {[cls |-> "text", pos |-> p, tag |-> "text"] : p \in 1..NText}
        \cup {[cls |-> "blob", pos |-> p, tag |-> "blob"] : p \in 1..NBlob}

ClsRank(c) == CASE c = "num" -> 0 [] c = "text" -> 1 [] c = "blob" -> 2
Sign(x) == IF x < 0 THEN -1 ELSE IF x > 0 THEN 1 ELSE 0
Cmp(a, b) == IF a.cls # b.cls THEN Sign(ClsRank(a.cls) - ClsRank(b.cls)) ELSE Sign(a.pos - b.pos)
SameKey(a, b) == Cmp(a, b) = 0

(* the order is total, antisymmetric up to SameKey, transitive; equal only for twins *)
ASSUME \A a, b \in Keys : Cmp(a, b) = -Cmp(b, a)
ASSUME \A a, b, c \in Keys : (Cmp(a, b) <= 0 /\ Cmp(b, c) <= 0) => Cmp(a, c) <= 0
ASSUME \A a, b \in Keys : SameKey(a, b) <=> (a = b \/ (a.cls = "num" /\ b.cls = "num" /\ a.pos = b.pos))

(* scenario generation: one behaviour per ordered pair *)
VARIABLES pair, done
vars == <<pair, done>>
Init == pair = <<>> /\ done = FALSE
Next == /\ ~done
        /\ \E a, b \in Keys : pair' = <<a, b>> /\ done' = TRUE
Spec == Init /\ [][Next]_vars
Emit == done => PrintT(<<"BEHAVIOUR", ToJson([a |-> pair[1], b |-> pair[2], cmp |-> Cmp(pair[1], pair[2])])>>)
=============================================================================
