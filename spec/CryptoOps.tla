----------------------------- MODULE CryptoOps -----------------------------
(***************************************************************************)
(* Sealed node objects (kv/crypto.go, kv/kv.go persistEncryptor), as the   *)
(* property C18 sees them.  A box is what one Encrypt produced and what    *)
(* happened to its bytes since:                                            *)
(*    [key, msg, fmt, via, dmg]                                            *)
(* key = passphrase id, msg = plaintext id, fmt = "v1" (secretbox) or      *)
(* "legacy" (the earlier hand-rolled box, still accepted by Decrypt),      *)
(* via = "func" (Encryptor.Encrypt called directly) or "kv" (a node        *)
(* written by kv.Open with NodeEncryptor + Set + Commit, read back by a    *)
(* fresh kv.Open + Get), dmg = what was done to the stored bytes.          *)
(*                                                                         *)
(* The rule of the property: opening yields the ORIGINAL plaintext when    *)
(* the passphrase is the sealing one and the bytes are untouched, and an   *)
(* ERROR in every other case - never other data.                           *)
(***************************************************************************)
EXTENDS Integers, Sequences, FiniteSets

Formats == {"v1", "legacy"}
Vias == {"func", "kv"}
(* damage classes; positions inside a class are chosen (thorough tier: enumerated) by the driver *)
Damages == {"nonce_bit",     \* one bit of the 24-byte nonce flipped
            "tag_bit",       \* one bit of the 16-byte authenticator
            "body_bit",      \* one bit of the encrypted message (needs a non-empty message)
            "byte_set",      \* one byte replaced by another value
            "cut_nonce",     \* truncated inside the nonce (length < 24)
            "cut_tag",       \* truncated inside the authenticator (24 <= length < 40)
            "cut_body",      \* truncated inside the encrypted message (needs a non-empty message)
            "extend",        \* bytes appended
            "empty"}         \* replaced by zero bytes
NeedsBody == {"body_bit", "cut_body"}

Err == "ERROR"
OpenResult(box, k) == IF box.key = k /\ box.dmg = "none" THEN box.msg ELSE Err
=============================================================================
