------------------------------- MODULE Table -------------------------------
(***************************************************************************)
(* One connection, SQL-visible semantics of a single-writer s3db table:    *)
(* what C06 compares with a native WITHOUT ROWID table.                    *)
(*                                                                         *)
(* Keys are positions 1..NKeys on a line whose order is the SQLite order   *)
(* of the concrete keys the harness chooses; scan bounds range over the    *)
(* positions 0..2*NKeys+1 of a finer line on which key k sits at 2k and    *)
(* the odd positions are the gaps before, between and after the keys.      *)
(* A window is [lo, hi] with strictness flags, as BestIndex/Filter derive  *)
(* it from the constraints =, <, <=, >, >=.                                *)
(*                                                                         *)
(* The module (1) defines Scan / Limit / Count / Min / Max and the         *)
(* statement outcomes, with sanity theorems TLC checks; (2) generates all  *)
(* programs of mutating statements up to a bound, with commit / re-open /  *)
(* transaction points (the harness adds the window queries, which do not   *)
(* change the state).                                                      *)
(***************************************************************************)
EXTENDS Integers, FiniteSets, Sequences, TLC, Json

CONSTANTS NKeys, MaxOps, WithTx

Keys == 1..NKeys
Pos == 0..(2 * NKeys + 1)
KeyPos(k) == 2 * k

(* a window: lower bound (lo, strict?) and upper bound (hi, strict?); NoB = unbounded *)
NoB == -1
Window == [lo : Pos \cup {NoB}, los : BOOLEAN, hi : Pos \cup {NoB}, his : BOOLEAN]
InWindow(k, w) ==
  /\ (w.lo = NoB \/ (IF w.los THEN KeyPos(k) > w.lo ELSE KeyPos(k) >= w.lo))
  /\ (w.hi = NoB \/ (IF w.his THEN KeyPos(k) < w.hi ELSE KeyPos(k) <= w.hi))

(* the rows a scan returns, in order *)
RECURSIVE SortAsc(_)
SortAsc(S) == IF S = {} THEN <<>> ELSE LET m == CHOOSE x \in S : \A y \in S : x <= y IN <<m>> \o SortAsc(S \ {m})
Rev(s) == [i \in 1..Len(s) |-> s[Len(s) + 1 - i]]
Scan(live, w, desc) == LET asc == SortAsc({k \in live : InWindow(k, w)}) IN IF desc THEN Rev(asc) ELSE asc
Limit(s, n) == IF n >= Len(s) THEN s ELSE SubSeq(s, 1, n)
Count(live, w) == Cardinality({k \in live : InWindow(k, w)})

VARIABLES live,      \* keys visible on the connection
          committed, \* keys visible to a new connection
          intx, snap, nops, hist
vars == <<live, committed, intx, snap, nops, hist>>

Init == live = {} /\ committed = {} /\ intx = FALSE /\ snap = {} /\ nops = 0 /\ hist = <<>>

Step(rec, l2) ==
  /\ nops < MaxOps
  /\ live' = l2
  /\ committed' = IF intx THEN committed ELSE l2
  /\ nops' = nops + 1
  /\ hist' = Append(hist, rec)
  /\ UNCHANGED <<intx, snap>>

(* INSERT of one key: primary-key failure if present *)
Ins(k) == Step([op |-> "ins", k |-> k, ok |-> k \notin live], live \cup {k})
(* INSERT with a NULL key / a NULL in the NOT NULL column: refused *)
InsBad(kind) == Step([op |-> kind], live)
Upd(k) == Step([op |-> "upd", k |-> k, n |-> IF k \in live THEN 1 ELSE 0], live)
Del(k) == Step([op |-> "del", k |-> k, n |-> IF k \in live THEN 1 ELSE 0], live \ {k})
(* range statements over a window given by two bound positions *)
DelRange(lo, hi) == LET w == [lo |-> lo, los |-> FALSE, hi |-> hi, his |-> TRUE] IN
                    Step([op |-> "delrange", lo |-> lo, hi |-> hi, n |-> Count(live, w)], {k \in live : ~InWindow(k, w)})
UpdRange(lo, hi) == LET w == [lo |-> lo, los |-> TRUE, hi |-> hi, his |-> FALSE] IN
                    Step([op |-> "updrange", lo |-> lo, hi |-> hi, n |-> Count(live, w)], live)
Reopen == /\ ~intx /\ nops < MaxOps /\ hist # <<>> /\ hist[Len(hist)].op # "reopen"
          /\ hist' = Append(hist, [op |-> "reopen"]) /\ nops' = nops + 1
          /\ UNCHANGED <<live, committed, intx, snap>>
Begin == /\ WithTx /\ ~intx /\ nops < MaxOps
         /\ intx' = TRUE /\ snap' = live /\ hist' = Append(hist, [op |-> "begin"]) /\ nops' = nops + 1
         /\ UNCHANGED <<live, committed>>
Commit == /\ intx /\ intx' = FALSE /\ committed' = live /\ hist' = Append(hist, [op |-> "commit"])
          /\ UNCHANGED <<live, snap, nops>>
Rollback == /\ intx /\ intx' = FALSE /\ live' = snap /\ hist' = Append(hist, [op |-> "rollback"])
            /\ UNCHANGED <<committed, snap, nops>>

Done == nops = MaxOps /\ ~intx

Next == /\ ~Done
        /\ \/ \E k \in Keys : Ins(k) \/ Upd(k) \/ Del(k)
           \/ \E kind \in {"insnullkey", "insnullcol"} : InsBad(kind)
           \/ \E lo, hi \in Pos : lo < hi /\ (DelRange(lo, hi) \/ UpdRange(lo, hi))
           \/ Reopen \/ Begin \/ Commit \/ Rollback

Spec == Init /\ [][Next]_vars

---------------------------------------------------------------------------
(* sanity of the operators (checked by TLC on every reachable state) *)
AllW == [lo |-> NoB, los |-> FALSE, hi |-> NoB, his |-> FALSE]
ScanSound == \A w \in {AllW} \cup {[lo |-> a, los |-> s1, hi |-> b, his |-> s2] : a, b \in {0, 2, 3, 2 * NKeys + 1}, s1, s2 \in BOOLEAN} :
               /\ Len(Scan(live, w, FALSE)) = Count(live, w)
               /\ Rev(Scan(live, w, FALSE)) = Scan(live, w, TRUE)
               /\ \A i \in 1..(Len(Scan(live, w, FALSE)) - 1) : Scan(live, w, FALSE)[i] < Scan(live, w, FALSE)[i + 1]
C05_CommittedWhenIdle == ~intx => committed = live

Emit == Done => PrintT(<<"BEHAVIOUR", ToJson(hist)>>)
=============================================================================
