--------------------------------- MODULE KV ---------------------------------
(***************************************************************************)
(* The kv package on its own terms (kv/kv.go, kv/internal/crdt/crdt.go,    *)
(* kv/crdt/value.go): handles on one bucket prefix, Set / Tombstone /      *)
(* RemoveTombstones / Commit / Clone / Open(merge), and the read           *)
(* operations Get, cursor, Diff, TraceHistory as operators.                *)
(*                                                                         *)
(* An entry is [mod, tomb, val, prev]: mod = ModEpochNanos, tomb = 0 or    *)
(* TombstoneSinceEpochNanos, val = value token (NoV for a tombstone),      *)
(* prev = the version the handle was based on when the entry was last      *)
(* overwritten ("PreviousRoot").  A tree is a function from the keys it    *)
(* holds to entries.                                                       *)
(*                                                                         *)
(* crdt.LastWriteWins / firstTombstoneWins, transcribed:                   *)
(*   - if either side is a tombstone: a tombstone beats a value whatever   *)
(*     the times; of two tombstones the EARLIER is kept (ties: the old);   *)
(*   - otherwise the new value wins iff new.mod >= old.mod.                *)
(***************************************************************************)
EXTENDS KVOps, TLC, Json

CONSTANTS Handles, KVKeys, MaxT, MaxOps, MaxVer

---------------------------------------------------------------------------
(* the state machine / scenario generator *)
VARIABLES cur,    \* version ids under root/current/
          ver,    \* sequence of committed trees: ver[i] = [tree, parents]
          h,      \* handle -> [open, tree, src (set of version ids), dirty]
          used,   \* times already used (distinct times per the property's quantifier)
          nops, hist
vars == <<cur, ver, h, used, nops, hist>>

EmptyT == [x \in {} |-> Ent(0, 0, NoV, 0)]
Init == /\ cur = {} /\ ver = <<>>
        /\ h = [x \in Handles |-> [open |-> FALSE, tree |-> EmptyT, src |-> {}, dirty |-> FALSE]]
        /\ used = {} /\ nops = 0 /\ hist = <<>>

NVer == Len(ver)
RECURSIVE FoldMerge(_, _)
FoldMerge(S, acc) == IF S = {} THEN acc ELSE LET v == CHOOSE y \in S : TRUE IN FoldMerge(S \ {v}, MergeTrees(acc, ver[v].tree))

Open(x) ==
  /\ ~h[x].open /\ nops < MaxOps /\ NVer < MaxVer
  /\ LET t == FoldMerge(cur, EmptyT)
         merges == Cardinality(cur) >= 2
     IN IF merges
        THEN /\ ver' = Append(ver, [tree |-> t, parents |-> cur])
             /\ cur' = {NVer + 1}
             /\ h' = [h EXCEPT ![x] = [open |-> TRUE, tree |-> t, src |-> {NVer + 1}, dirty |-> FALSE]]
        ELSE /\ UNCHANGED <<ver, cur>>
             /\ h' = [h EXCEPT ![x] = [open |-> TRUE, tree |-> t, src |-> cur, dirty |-> FALSE]]
  /\ hist' = Append(hist, [op |-> "open", h |-> x])
  /\ nops' = nops + 1 /\ UNCHANGED used

SrcId(x) == IF Cardinality(h[x].src) = 1 THEN CHOOSE v \in h[x].src : TRUE ELSE 0

SetOp(x) ==
  /\ h[x].open /\ nops < MaxOps
  /\ \E k \in KVKeys, t \in (1..MaxT) \ used :
       /\ h' = [h EXCEPT ![x].tree = Update(@, k, Ent(t, 0, t, 0), SrcId(x)), ![x].dirty = TRUE]
       /\ used' = used \cup {t}
       /\ hist' = Append(hist, [op |-> "set", h |-> x, k |-> k, t |-> t])
  /\ nops' = nops + 1 /\ UNCHANGED <<cur, ver>>

TombOp(x) ==
  /\ h[x].open /\ nops < MaxOps
  /\ \E k \in KVKeys, t \in (1..MaxT) \ used :
       /\ h' = [h EXCEPT ![x].tree = Update(@, k, Ent(t, t, NoV, 0), SrcId(x)), ![x].dirty = TRUE]
       /\ used' = used \cup {t}
       /\ hist' = Append(hist, [op |-> "tomb", h |-> x, k |-> k, t |-> t])
  /\ nops' = nops + 1 /\ UNCHANGED <<cur, ver>>

RmTombOp(x) ==
  /\ h[x].open /\ nops < MaxOps
  /\ \E b \in 1..(MaxT + 1) :
       /\ RemoveTombs(h[x].tree, b) # h[x].tree
       /\ h' = [h EXCEPT ![x].tree = RemoveTombs(@, b), ![x].dirty = TRUE]
       /\ hist' = Append(hist, [op |-> "rmtomb", h |-> x, before |-> b])
  /\ nops' = nops + 1 /\ UNCHANGED <<cur, ver, used>>

CommitOp(x) ==
  /\ h[x].open /\ h[x].dirty /\ NVer < MaxVer
  /\ ver' = Append(ver, [tree |-> h[x].tree, parents |-> h[x].src])
  /\ cur' = (cur \ h[x].src) \cup {NVer + 1}
  /\ h' = [h EXCEPT ![x].src = {NVer + 1}, ![x].dirty = FALSE]
  /\ hist' = Append(hist, [op |-> "commit", h |-> x])
  /\ UNCHANGED <<used, nops>>

CloseOp(x) ==
  /\ h[x].open /\ ~h[x].dirty /\ nops < MaxOps
  /\ h' = [h EXCEPT ![x] = [open |-> FALSE, tree |-> EmptyT, src |-> {}, dirty |-> FALSE]]
  /\ hist' = Append(hist, [op |-> "close", h |-> x])
  /\ nops' = nops + 1 /\ UNCHANGED <<cur, ver, used>>

Done == nops = MaxOps /\ \A x \in Handles : ~h[x].dirty
Next == ~Done /\ \E x \in Handles : Open(x) \/ SetOp(x) \/ TombOp(x) \/ RmTombOp(x) \/ CommitOp(x) \/ CloseOp(x)
Spec == Init /\ [][Next]_vars
View == <<cur, ver, h, used, nops>>

---------------------------------------------------------------------------
(* C17 at the design level *)
AllSets(k) == {hist[i] : i \in {j \in DOMAIN hist : hist[j].op = "set" /\ hist[j].k = k}}
(* a tombstone makes the key absent; among values the latest time wins: in every handle's tree, a live entry's    *)
(* time is >= the time of every Set of that key that this handle's history has absorbed - checked on the merge    *)
(* operator directly: *)
MergeCommutes == \A a, b \in {h[x].tree : x \in Handles} \cup {ver[i].tree : i \in 1..NVer} :
                    \A k \in Dom(a) \cap Dom(b) : LWW(a[k], b[k]) = LWW(b[k], a[k]) \/ a[k].mod = b[k].mod \/ (IsTomb(a[k]) /\ IsTomb(b[k]) /\ a[k].tomb = b[k].tomb)
TombstoneBeatsValue == \A a, b \in {h[x].tree : x \in Handles} \cup {ver[i].tree : i \in 1..NVer} :
                          \A k \in Dom(a) \cap Dom(b) : (IsTomb(a[k]) /\ ~IsTomb(b[k])) => IsTomb(MergeTrees(a, b)[k])
EarliestTombstoneKept == \A a, b \in {h[x].tree : x \in Handles} \cup {ver[i].tree : i \in 1..NVer} :
                          \A k \in Dom(a) \cap Dom(b) : (IsTomb(a[k]) /\ IsTomb(b[k])) =>
                               MergeTrees(a, b)[k].tomb = (IF a[k].tomb <= b[k].tomb THEN a[k].tomb ELSE b[k].tomb)
LatestValueWins == \A a, b \in {h[x].tree : x \in Handles} \cup {ver[i].tree : i \in 1..NVer} :
                          \A k \in Dom(a) \cap Dom(b) : (~IsTomb(a[k]) /\ ~IsTomb(b[k])) =>
                               MergeTrees(a, b)[k].mod = (IF a[k].mod >= b[k].mod THEN a[k].mod ELSE b[k].mod)

Emit == Done => PrintT(<<"BEHAVIOUR", ToJson(hist)>>)
=============================================================================
