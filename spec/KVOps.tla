------------------------------- MODULE KVOps -------------------------------
(***************************************************************************)
(* Pure operators of the kv layer (see KV.tla for the state machine):      *)
(* entries, crdt.LastWriteWins / firstTombstoneWins, the local write path, *)
(* tree merge, Get, Diff, RemoveTombstones.                                *)
(***************************************************************************)
EXTENDS Integers, FiniteSets, Sequences

NoV == "-"
Ent(mod, tomb, val, prev) == [mod |-> mod, tomb |-> tomb, val |-> val, prev |-> prev]
IsTomb(e) == e.tomb # 0

(* LastWriteWins(new, old): which of the two survives *)
LWW(new, old) ==
  IF IsTomb(new) \/ IsTomb(old)
  THEN IF ~IsTomb(new) THEN old
       ELSE IF ~IsTomb(old) THEN new
       ELSE IF new.tomb < old.tomb THEN new ELSE old
  ELSE IF new.mod >= old.mod THEN new ELSE old

Dom(t) == DOMAIN t
PutE(t, k, e) == [x \in Dom(t) \cup {k} |-> IF x = k THEN e ELSE t[x]]
DelKeys(t, K) == [x \in Dom(t) \ K |-> t[x]]

(* crdt.Tree.update: the local write path; prev is set when the new entry replaces an existing one *)
Update(t, k, new, src) ==
  IF k \in Dom(t)
  THEN LET w == LWW(new, t[k]) IN
       IF w = t[k] /\ w # new THEN t                              \* the stored entry wins: nothing changes
       ELSE PutE(t, k, [w EXCEPT !.prev = src])
  ELSE PutE(t, k, new)

(* merge of two trees (crdt.Tree.Merge with LWW / mergeTrees): per key LastWriteWins(ours, theirs) *)
MergeTrees(a, b) ==
  [k \in Dom(a) \cup Dom(b) |->
     IF k \notin Dom(b) THEN a[k] ELSE IF k \notin Dom(a) THEN b[k]
     ELSE IF a[k] = b[k] THEN a[k] ELSE LWW(a[k], b[k])]

(* reads *)
Get(t, k) == IF k \in Dom(t) /\ ~IsTomb(t[k]) THEN t[k].val ELSE NoV
Inner(t, k) == IF k \in Dom(t) /\ ~IsTomb(t[k]) THEN t[k].val ELSE NoV     \* innerValue(): tombstone -> nil
(* Diff(mine, from): keys whose entries differ AND whose visible values differ *)
DiffKeys(mine, from) == {k \in Dom(mine) \cup Dom(from) :
                           (k \notin Dom(mine) \/ k \notin Dom(from) \/ mine[k] # from[k]) /\ Inner(mine, k) # Inner(from, k)}
RemoveTombs(t, before) == DelKeys(t, {k \in Dom(t) : IsTomb(t[k]) /\ t[k].tomb < before})

=============================================================================
