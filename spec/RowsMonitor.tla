---------------------------- MODULE RowsMonitor ----------------------------
(***************************************************************************)
(* STRICT conformance of the row CRDT transcription (Rows.tla, mode        *)
(* "fixed" = the code with repairs R1-R3) with the implementation's        *)
(* registers: single-writer statement histories executed through the Go    *)
(* API (scenario kind rowapi) record, after every statement, the registers *)
(* of the statement's key (entry time, status time, live flag, per-column  *)
(* time and value); this module replays the statements through             *)
(* Rows!ApplyLocal and compares outcome and registers exactly.             *)
(*                                                                         *)
(* This is a statement about the SPECIFICATION's fidelity, not about a     *)
(* property: a mismatch never becomes a VIOLATION (the properties speak    *)
(* about visible rows, which Monitor.tla judges); it is reported in the    *)
(* evidence as strict_register_conformance.                                *)
(***************************************************************************)
EXTENDS Integers, Sequences, FiniteSets, TLC, Json

CONSTANTS TraceFile, ColSeq, Props
Cols == {ColSeq[i] : i \in DOMAIN ColSeq}
R == INSTANCE Rows

Trace == ndJsonDeserialize(TraceFile)
VARIABLES l, sc, ent, vr, viol, checked
vars == <<l, sc, ent, vr, viol, checked>>

Has(r, f) == f \in DOMAIN r
Get(f, k, d) == IF k \in DOMAIN f THEN f[k] ELSE d
Put(f, k, v) == [x \in DOMAIN f \cup {k} |-> IF x = k THEN v ELSE f[x]]

StmtOf(e) ==
  [kind |-> e.kind, key |-> e.key, wt |-> e.wt, n |-> e.seq,
   cols |-> IF e.kind = "ins"
            THEN [c \in Cols |-> IF e.vals[c] = "NONE" THEN R!NullV ELSE e.vals[c]]
            ELSE [c \in {x \in Cols : e.vals[x] # "NONE"} |-> e.vals[c]]]

(* the registers the implementation holds, in the model's representation *)
ColT(r, c) == LET M == {i \in DOMAIN r.cols : r.cols[i][1] = c} IN IF M = {} THEN R!NoTime ELSE r.cols[CHOOSE i \in M : TRUE][2]
ColV(r, c) == LET M == {i \in DOMAIN r.cols : r.cols[i][1] = c} IN IF M = {} THEN R!NoVal ELSE r.cols[CHOOSE i \in M : TRUE][3]
RegOf(r) == IF r.abs THEN R!Absent
            ELSE R!Reg(r.mod, r.st, r.live, [c \in Cols |-> ColT(r, c)], [c \in Cols |-> ColV(r, c)])

Outcome(e) == IF e.outcome = "constraint_pk" THEN "pk" ELSE IF e.outcome = "ok" /\ e.affected = 0 THEN "noop" ELSE e.outcome

V(pred, e, detail) == {[sc |-> sc, prop |-> "STRICT", pred |-> pred, seq |-> e.seq, detail |-> detail]}

EntriesMap(entries) == [k \in {entries[i].key : i \in DOMAIN entries} |->
                          LET x == entries[CHOOSE i \in DOMAIN entries : entries[i].key = k] IN
                          RegOf([abs |-> FALSE, mod |-> x.mod, st |-> x.st, live |-> x.live, cols |-> x.cols])]
MergeMaps(a, b) == [k \in DOMAIN a \cup DOMAIN b |-> R!MergeEntry("fixed", Get(a, k, R!Absent), Get(b, k, R!Absent))]
(* mergeRoots folds the versions in the recorded order: the first is the base, the others are grafted one by one *)
Fold(order) ==
  LET f[i \in 1..Len(order)] == IF i = 1 THEN Get(vr, order[1], <<>>) ELSE MergeMaps(f[i - 1], Get(vr, order[i], <<>>))
  IN IF Len(order) = 0 THEN <<>> ELSE f[Len(order)]

Handle(e) ==
  CASE e.ev = "stmt" /\ Has(e, "api") ->
         LET old == Get(ent, <<e.c, e.key>>, R!Absent)
             res == R!ApplyLocal("fixed", old, StmtOf(e))
         IN [e2 |-> Put(ent, <<e.c, e.key>>, res.e), vr2 |-> vr, n |-> 1,
             v |-> IF res.out # Outcome(e) THEN V("STRICT_Outcome", e, [model |-> res.out, code |-> Outcome(e)]) ELSE {}]
    [] e.ev = "regs" ->
         LET want == Get(ent, <<e.c, e.key>>, R!Absent)
             got == RegOf(e)
         IN [e2 |-> ent, vr2 |-> vr, n |-> 1,
             v |-> IF got # want THEN V("STRICT_Registers", e, [key |-> e.key, model |-> want, code |-> got]) ELSE {}]
    [] e.ev = "vregs" ->
         \* the registers of a writer's committed version (one version per writer: it never refreshed)
         [e2 |-> ent, n |-> 0, v |-> {},
          vr2 |-> IF Len(e.version) = 1 THEN Put(vr, e.version[1], EntriesMap(e.entries)) ELSE vr]
    [] e.ev = "mregs" ->
         LET known == \A i \in DOMAIN e.order : e.order[i] \in DOMAIN vr
             want == Fold(e.order)
             got == EntriesMap(e.entries)
         IN [e2 |-> ent, vr2 |-> vr, n |-> IF known THEN 1 ELSE 0,
             v |-> IF e.outcome # "ok" THEN V("STRICT_MergeFails", e, e.err)
                   ELSE IF known /\ got # want
                   THEN V("STRICT_MergeRegisters", e, [order |-> e.order, model |-> want, code |-> got]) ELSE {}]
    [] OTHER -> [e2 |-> ent, vr2 |-> vr, n |-> 0, v |-> {}]

Init == l = 1 /\ sc = "none" /\ ent = <<>> /\ vr = <<>> /\ viol = {} /\ checked = 0
Next == /\ l <= Len(Trace)
        /\ LET e == Trace[l] IN
             IF e.ev = "reset"
             THEN sc' = e.sc /\ ent' = <<>> /\ vr' = <<>> /\ viol' = viol /\ checked' = checked
             ELSE LET h == Handle(e) IN sc' = sc /\ ent' = h.e2 /\ vr' = h.vr2 /\ viol' = viol \cup h.v /\ checked' = checked + h.n
        /\ l' = l + 1
Spec == Init /\ [][Next]_vars
Report == (l = Len(Trace) + 1) => PrintT(<<"MONITOR", ToJson([events |-> Len(Trace), checked |-> checked, violations |-> viol])>>)
TraceAccepted == TLCGet("stats").diameter - 1 = Len(Trace)
=============================================================================
