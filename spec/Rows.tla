------------------------------- MODULE Rows -------------------------------
(***************************************************************************)
(* The row CRDT of s3db, as pure operators.                                *)
(*                                                                         *)
(*  - registers as the code keeps them (vtable_common.go: Insert / Update  *)
(*    / Delete, MergeRows, mergeValues, hideDeletedValue, adj; and the     *)
(*    entry-level gate of kv/internal/crdt update -> LastWriteWins),       *)
(*    transcribed branch for branch over ABSOLUTE times ("as built");      *)
(*  - MergeJoin: the semilattice the README describes;                     *)
(*  - Ideal: the documented rule stated directly on a SET of accepted      *)
(*    statements (README "Multiple Writers", property C02), without any    *)
(*    register.  Ideal is the oracle of C01/C02/C15.                       *)
(*                                                                         *)
(* A statement is [kind, key, cols, wt, n] with kind in {"ins","upd","del"},*)
(* cols a function from the ASSIGNED column names to values, wt its write  *)
(* time, n a sequence number that orders the statements of one transaction *)
(* (which share one write time).  Times are integers; NoTime is below      *)
(* every time.                                                             *)
(***************************************************************************)
EXTENDS Integers, FiniteSets, Sequences

CONSTANT Cols                 \* the non-key column names of the table

NoTime == -1000000000
NoVal  == "NONE"              \* "column not present in the row" (reads as NULL)
NullV  == "NULL"

Max(a, b) == IF a > b THEN a ELSE b
SetMax(S) == CHOOSE x \in S : \A y \in S : y <= x

---------------------------------------------------------------------------
(* Registers.  An entry is Absent or                                       *)
(*   [abs |-> FALSE, mod, st, live, ct, cv]                                *)
(* mod  = entry time (ModEpochNanos)                                       *)
(* st   = time of the delete-status register (mod + DeleteUpdateOffset)    *)
(* live = ~Deleted                                                         *)
(* ct[c], cv[c] = time and value of column c (ct[c] = NoTime: not present) *)
Absent == [abs |-> TRUE]
NoCT == [c \in Cols |-> NoTime]
NoCV == [c \in Cols |-> NoVal]
Reg(mod, st, live, ct, cv) ==
  [abs |-> FALSE, mod |-> mod, st |-> st, live |-> live, ct |-> ct, cv |-> cv]
EmptyRow == Reg(NoTime, NoTime, TRUE, NoCT, NoCV)   \* &v1proto.Row{} at the zero time

(* MergeRows(t1,r1,t2,r2,outTime), absolute times.  r1 is the "first"      *)
(* argument; ties on the status time and on a column time go to r2 (the   *)
(* later statement of a transaction, whose statements share one time).    *)
MergeRowsAB(r1, r2, out) ==
  LET r2wins == ~(r1.st > r2.st)
      live   == IF r2wins THEN r2.live ELSE r1.live
      st     == IF r2wins THEN r2.st ELSE r1.st
      reset  == IF r2wins
                THEN (IF ~r1.live /\ r2.live THEN r2.st ELSE NoTime)
                ELSE (IF r1.live /\ ~r2.live THEN r1.st ELSE NoTime)
      pick(c) == LET t1 == r1.ct[c]  t2 == r2.ct[c] IN
                 CASE t1 = NoTime /\ t2 = NoTime -> 0
                   [] t1 = NoTime -> 2
                   [] t2 = NoTime -> 1
                   [] t1 <= t2    -> 2
                   [] OTHER       -> 1
      ctOf(c) == LET p == pick(c) IN
                 IF p = 0 THEN NoTime
                 ELSE LET t == IF p = 1 THEN r1.ct[c] ELSE r2.ct[c] IN
                      IF t < reset THEN NoTime ELSE t
      cvOf(c) == LET p == pick(c) IN
                 IF p = 0 \/ ctOf(c) = NoTime THEN NoVal
                 ELSE IF p = 1 THEN r1.cv[c] ELSE r2.cv[c]
  IN IF live THEN Reg(out, st, TRUE, [c \in Cols |-> ctOf(c)], [c \in Cols |-> cvOf(c)])
             ELSE Reg(out, st, FALSE, NoCT, NoCV)

(* MergeRows with repair R3: a deleted result keeps the column writes that *)
(* are newer than the delete (a later INSERT may be older than them).      *)
MergeRowsKeep(r1, r2, out) ==
  LET r2wins == ~(r1.st > r2.st)
      live   == IF r2wins THEN r2.live ELSE r1.live
      st     == IF r2wins THEN r2.st ELSE r1.st
      reset  == IF ~live THEN st
                ELSE IF r2wins
                THEN (IF ~r1.live /\ r2.live THEN r2.st ELSE NoTime)
                ELSE (IF r1.live /\ ~r2.live THEN r1.st ELSE NoTime)
      pick(c) == LET t1 == r1.ct[c]  t2 == r2.ct[c] IN
                 CASE t1 = NoTime /\ t2 = NoTime -> 0
                   [] t1 = NoTime -> 2
                   [] t2 = NoTime -> 1
                   [] t1 <= t2    -> 2
                   [] OTHER       -> 1
      ctOf(c) == LET p == pick(c) IN
                 IF p = 0 THEN NoTime
                 ELSE LET t == IF p = 1 THEN r1.ct[c] ELSE r2.ct[c] IN
                      IF t < reset THEN NoTime ELSE t
      cvOf(c) == LET p == pick(c) IN
                 IF p = 0 \/ ctOf(c) = NoTime THEN NoVal
                 ELSE IF p = 1 THEN r1.cv[c] ELSE r2.cv[c]
  IN Reg(out, st, live, [c \in Cols |-> ctOf(c)], [c \in Cols |-> cvOf(c)])

MR(mode, r1, r2, out) == IF mode = "fixed" THEN MergeRowsKeep(r1, r2, out) ELSE MergeRowsAB(r1, r2, out)

(* mergeValues(i1, i2): the older entry is MergeRows' first argument, the  *)
(* result is stamped with the newer entry time; on equal entry times i2 is *)
(* first and i1 second.                                                    *)
MergeValuesAB(i1, i2) ==
  IF i1.mod < i2.mod THEN MergeRowsAB(i1, i2, i2.mod) ELSE MergeRowsAB(i2, i1, i1.mod)
MergeValuesM(mode, i1, i2) ==
  IF i1.mod < i2.mod THEN MR(mode, i1, i2, i2.mod) ELSE MR(mode, i2, i1, i1.mod)

(* The join the README describes: a status register moved only by INSERT   *)
(* and DELETE, one LWW register per column, columns older than the status  *)
(* are hidden.  On this representation "upd" deltas carry st = NoTime.     *)
MergeJoin(a, b) ==
  LET st   == Max(a.st, b.st)
      live == IF a.st > b.st THEN a.live ELSE IF b.st > a.st THEN b.live ELSE (a.live /\ b.live)
      ctOf(c) == LET t == Max(a.ct[c], b.ct[c]) IN IF t < st THEN NoTime ELSE t
      cvOf(c) == IF ctOf(c) = NoTime THEN NoVal
                 ELSE IF a.ct[c] >= b.ct[c] THEN a.cv[c] ELSE b.cv[c]
  IN Reg(Max(a.mod, b.mod), st, live, [c \in Cols |-> ctOf(c)], [c \in Cols |-> cvOf(c)])

MergeEntry(mode, a, b) ==
  IF a.abs THEN b ELSE IF b.abs THEN a
  ELSE IF mode = "join" THEN MergeJoin(a, b) ELSE MergeValuesM(mode, a, b)

---------------------------------------------------------------------------
(* Local statements.                                                       *)
Assigned(s) == DOMAIN s.cols
DeltaCT(s) == [c \in Cols |-> IF c \in Assigned(s) THEN s.wt ELSE NoTime]
DeltaCV(s) == [c \in Cols |-> IF c \in Assigned(s) THEN s.cols[c] ELSE NoVal]
Delta(mode, s) ==
  CASE s.kind = "ins" -> Reg(s.wt, s.wt, TRUE, DeltaCT(s), DeltaCV(s))
    [] s.kind = "upd" -> Reg(s.wt, IF mode = "asbuilt" THEN s.wt ELSE NoTime, TRUE, DeltaCT(s), DeltaCV(s))
    [] s.kind = "del" -> Reg(s.wt, s.wt, FALSE, NoCT, NoCV)

(* crdt.update: the new entry replaces the stored one iff its time is >=   *)
(* the stored entry time; otherwise the whole statement is dropped.        *)
Gate(mode, old, new, t) ==
  IF mode = "asbuilt" THEN (IF old.abs \/ t >= old.mod THEN new ELSE old) ELSE new

(* Result of a local statement on entry e:                                 *)
(*   [e |-> new entry, out |-> "ok" | "noop" | "pk"]                       *)
(* "noop": UPDATE/DELETE that reach no visible row (SQLite never calls the *)
(* table); "pk": INSERT refused by the primary-key check.                  *)
(* mode "fixed" = the code with repairs R1-R3:                             *)
(*  R1 a local statement older than the stored entry is merged per column  *)
(*     (stored at the later of the two times) instead of being dropped;    *)
(*  R2 the delta of an UPDATE carries the row's existing status time, so   *)
(*     an UPDATE never moves the delete-status register;                   *)
(*  R3 MergeRowsKeep.                                                      *)
ApplyLocal(mode, e, s) ==
  LET ok   == ~e.abs
      old  == IF ok THEN e ELSE EmptyRow
      d0   == Delta(mode, s)
      d    == IF mode = "fixed" /\ s.kind = "upd" THEN [d0 EXCEPT !.st = old.st] ELSE d0
      mrg  == CASE mode = "asbuilt" -> MergeRowsAB(old, d, s.wt)
                [] mode = "fixed"   -> MergeRowsKeep(old, d, Max(s.wt, old.mod))
                [] OTHER            -> MergeJoin(old, d)
      put(x) == IF mode = "asbuilt" THEN Gate(mode, e, x, s.wt) ELSE x
  IN CASE s.kind = "ins" ->
            IF ok /\ (old.live \/ old.st > s.wt) THEN [e |-> e, out |-> "pk"]
            ELSE [e |-> put(mrg), out |-> "ok"]
       [] OTHER ->
            IF ~ok \/ ~old.live THEN [e |-> e, out |-> "noop"]
            ELSE [e |-> put(mrg), out |-> "ok"]

---------------------------------------------------------------------------
(* What a reader sees.  A visible row is a function Cols -> value, where a *)
(* column that is not present reads as NULL.                               *)
ShowVal(v) == IF v = NoVal THEN NullV ELSE v
VisibleRow(e) == [c \in Cols |-> ShowVal(e.cv[c])]
IsVisible(e) == ~e.abs /\ e.live

---------------------------------------------------------------------------
(* The documented rule, on a set S of accepted statements of ONE key.      *)
(* Status: the latest INSERT or DELETE decides; a live row's column holds  *)
(* the value of the greatest-wt statement, among the statements at or      *)
(* after that INSERT, that assigned the column; else NULL.                 *)
(* Statements are ordered by write time, and - for the statements of one   *)
(* transaction, which share a write time - by their sequence number n.     *)
LaterEq(s1, s2) == s1.wt > s2.wt \/ (s1.wt = s2.wt /\ s1.n >= s2.n)
Latest(A) == CHOOSE s \in A : \A s2 \in A : LaterEq(s, s2)

IdealLive(S) ==
  LET ID == {s \in S : s.kind \in {"ins", "del"}} IN
  /\ ID # {}
  /\ Latest(ID).kind = "ins"

IdealRow(S) ==
  LET ID == {s \in S : s.kind \in {"ins", "del"}}
      m  == Latest(ID)
  IN [c \in Cols |->
        LET A == {s \in S : LaterEq(s, m) /\ s.kind \in {"ins", "upd"} /\ c \in Assigned(s)} IN
        IF A = {} THEN NullV ELSE Latest(A).cols[c]]

(* The whole table: the set of <<key, row>> pairs of the live keys.        *)
IdealTable(S) ==
  LET Keys == {s.key : s \in S} IN
  {<<k, IdealRow({s \in S : s.key = k})>> : k \in {k2 \in Keys : IdealLive({s \in S : s.key = k2})}}

(* What s3db_vacuum(cutoff) forgets: every statement of a key whose status  *)
(* is "deleted" with a delete time before the cutoff (the row's entry,     *)
(* marker included, is removed from the tree).                             *)
DeadBefore(S, k, cutoff) ==
  LET ID == {s \in S : s.key = k /\ s.kind \in {"ins", "del"}} IN
  ID # {} /\ Latest(ID).kind = "del" /\ Latest(ID).wt < cutoff
Purge(S, cutoff) == {s \in S : ~DeadBefore(S, s.key, cutoff)}

(* Distinct statements of one key carry distinct write times (the          *)
(* precondition of C01/C02; byte-identical retries are the same element).  *)
DistinctTimes(S) == \A s1, s2 \in S : (s1.key = s2.key /\ s1.wt = s2.wt) => s1 = s2
=============================================================================
