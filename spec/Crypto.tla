------------------------------- MODULE Crypto -------------------------------
(***************************************************************************)
(* Generator and design-level statement of C18: histories of Seal /        *)
(* Damage / Open over a few boxes, passphrases and message classes.        *)
(***************************************************************************)
EXTENDS CryptoOps, TLC, Json

CONSTANTS Pass, Msgs, EmptyMsgs, MaxBoxes, MaxOps, WithKV, WithLegacy

VARIABLES boxes,   \* sequence of boxes
          results, \* set of <<box index, passphrase, result>> observed so far
          nops, hist
vars == <<boxes, results, nops, hist>>

Init == boxes = <<>> /\ results = {} /\ nops = 0 /\ hist = <<>>

Seal(k, m, f, v) ==
  /\ Len(boxes) < MaxBoxes /\ nops < MaxOps
  /\ (f = "legacy" => WithLegacy) /\ (v = "kv" => WithKV)
  /\ (v = "kv" => m \notin EmptyMsgs)            \* a kv node always holds at least one entry
  /\ boxes' = Append(boxes, [key |-> k, msg |-> m, fmt |-> f, via |-> v, dmg |-> "none"])
  /\ hist' = Append(hist, [op |-> "seal", box |-> Len(boxes) + 1, key |-> k, msg |-> m, fmt |-> f, via |-> v])
  /\ nops' = nops + 1 /\ UNCHANGED results

Damage(i, d) ==
  /\ nops < MaxOps /\ boxes[i].dmg = "none"
  /\ (d \in NeedsBody => boxes[i].msg \notin EmptyMsgs)
  /\ boxes' = [boxes EXCEPT ![i].dmg = d]
  /\ hist' = Append(hist, [op |-> "damage", box |-> i, kind |-> d])
  /\ nops' = nops + 1 /\ UNCHANGED results

Open(i, k) ==
  /\ nops < MaxOps
  /\ results' = results \cup {<<i, k, OpenResult(boxes[i], k)>>}
  /\ hist' = Append(hist, [op |-> "open", box |-> i, key |-> k])
  /\ nops' = nops + 1 /\ UNCHANGED boxes

(* sealing the same plaintext under the same passphrase again: must give the same bytes (deduplication) *)
Reseal(i) ==
  /\ nops < MaxOps /\ boxes[i].fmt = "v1"
  /\ hist' = Append(hist, [op |-> "reseal", box |-> i])
  /\ nops' = nops + 1 /\ UNCHANGED <<boxes, results>>

Done == nops = MaxOps
Next == /\ ~Done
        /\ \/ \E k \in Pass, m \in Msgs, f \in Formats, v \in Vias : Seal(k, m, f, v)
           \/ \E i \in DOMAIN boxes : (\E d \in Damages : Damage(i, d)) \/ (\E k \in Pass : Open(i, k)) \/ Reseal(i)
Spec == Init /\ [][Next]_vars
View == <<boxes, results, nops>>

---------------------------------------------------------------------------
(* C18 on the design: data is only ever obtained with the right passphrase from untouched bytes *)
Authentic == \A r \in results : r[3] # Err => (boxes[r[1]].key = r[2] /\ r[3] = boxes[r[1]].msg)
(* (a box can be damaged after a successful open, so the converse is stated on the operator) *)
RoundTrip == \A i \in DOMAIN boxes : boxes[i].dmg = "none" => OpenResult(boxes[i], boxes[i].key) = boxes[i].msg
WrongKeyFails == \A i \in DOMAIN boxes : \A k \in Pass \ {boxes[i].key} : OpenResult(boxes[i], k) = Err

Emit == Done => PrintT(<<"BEHAVIOUR", ToJson(hist)>>)
=============================================================================
