----------------------------- MODULE KVMonitor -----------------------------
(***************************************************************************)
(* Trace validation of executions of the real kv package against KVOps     *)
(* (strict mode: the model is deterministic, so every recorded read must   *)
(* be exactly what the model's tree gives).  Events come from the          *)
(* harness's `kv` scenarios: every call on a handle and every read, plus   *)
(* the storage requests of the fake store (version PUTs with parents).     *)
(***************************************************************************)
EXTENDS KVOps, TLC, Json

CONSTANTS TraceFile, ColSeq, Props      \* ColSeq is unused here (common monitor interface)

Trace == ndJsonDeserialize(TraceFile)
VARIABLES l, g, viol
vars == <<l, g, viol>>

Range(s) == {s[i] : i \in DOMAIN s}
Has(r, f) == f \in DOMAIN r
GetD(f, k, d) == IF k \in DOMAIN f THEN f[k] ELSE d
Put(f, k, v) == [x \in DOMAIN f \cup {k} |-> IF x = k THEN v ELSE f[x]]
Del(f, k) == [x \in DOMAIN f \ {k} |-> f[x]]

EmptyT == [x \in {} |-> Ent(0, 0, NoV, "-")]
G0 == [sc |-> "none", hs |-> <<>>, hsrc |-> <<>>, vers |-> <<>>]

V(pred, e, detail) == IF "C17" \in Props THEN {[sc |-> g.sc, prop |-> "C17", pred |-> pred, seq |-> e.seq, detail |-> detail]} ELSE {}

RECURSIVE FoldSeq(_, _, _)
FoldSeq(sq, i, acc) == IF i > Len(sq) THEN acc ELSE FoldSeq(sq, i + 1, MergeTrees(acc, GetD(g.vers, sq[i], EmptyT)))

(* a dump as a tree *)
DumpTree(entries) == [k \in {entries[i].k : i \in DOMAIN entries} |->
                        LET x == entries[CHOOSE i \in DOMAIN entries : entries[i].k = k] IN Ent(x.mod, x.tomb, x.val, x.prev)]
Strip(t) == [k \in DOMAIN t |-> [t[k] EXCEPT !.prev = "-"]]     \* (PreviousRoot is compared separately)

OnS3(e) ==
  IF e.op = "PUT" /\ e.res = "ok" /\ e.cls = "cur" /\ e.name \notin DOMAIN g.vers
  THEN LET t == IF e.c \in DOMAIN g.hs THEN g.hs[e.c] ELSE FoldSeq(e.parents, 1, EmptyT) IN
       [g2 |-> [g EXCEPT !.vers = Put(@, e.name, t)], v |-> {}]
  ELSE [g2 |-> g, v |-> {}]

OnOpen(e) ==
  IF e.outcome # "ok" THEN [g2 |-> g, v |-> V("C17_UnexpectedFailure", e, e.err)]
  ELSE LET t == FoldSeq(e.merged, 1, EmptyT) IN
       [g2 |-> [g EXCEPT !.hs = Put(@, e.h, t), !.hsrc = Put(@, e.h, IF Len(e.merged) = 1 THEN e.merged[1] ELSE "-")], v |-> {}]

Src(h) == GetD(g.hsrc, h, "-")
OnSet(e) ==
  IF e.outcome # "ok" THEN [g2 |-> g, v |-> V("C17_UnexpectedFailure", e, e.err)]
  ELSE [g2 |-> [g EXCEPT !.hs = Put(@, e.h, Update(g.hs[e.h], e.k, Ent(e.t, 0, e.val, "-"), Src(e.h)))], v |-> {}]
OnTomb(e) ==
  IF e.outcome # "ok" THEN [g2 |-> g, v |-> V("C17_UnexpectedFailure", e, e.err)]
  ELSE [g2 |-> [g EXCEPT !.hs = Put(@, e.h, Update(g.hs[e.h], e.k, Ent(e.t, e.t, NoV, "-"), Src(e.h)))], v |-> {}]
OnRmTomb(e) ==
  IF e.outcome # "ok" THEN [g2 |-> g, v |-> V("C17_UnexpectedFailure", e, e.err)]
  ELSE [g2 |-> [g EXCEPT !.hs = Put(@, e.h, RemoveTombs(g.hs[e.h], e.before))], v |-> {}]
OnCommit(e) ==
  IF e.outcome # "ok" THEN [g2 |-> g, v |-> V("C17_UnexpectedFailure", e, e.err)]
  ELSE [g2 |-> IF e.version # "-" THEN [g EXCEPT !.hsrc = Put(@, e.h, e.version)] ELSE g, v |-> {}]
OnClone(e) ==
  IF e.outcome # "ok" THEN [g2 |-> g, v |-> V("C17_UnexpectedFailure", e, e.err)]
  ELSE [g2 |-> [g EXCEPT !.hs = Put(@, e.h2, g.hs[e.h]), !.hsrc = Put(@, e.h2, Src(e.h))], v |-> {}]
OnClose(e) == [g2 |-> [g EXCEPT !.hs = Del(@, e.h), !.hsrc = Del(@, e.h)], v |-> {}]

OnGet(e) ==
  LET t == g.hs[e.h]
      want == Get(t, e.k)
      wantT == e.k \in DOMAIN t /\ IsTomb(t[e.k])
  IN [g2 |-> g,
      v |-> IF e.outcome # "ok" THEN V("C17_UnexpectedFailure", e, e.err)
            ELSE (IF e.val # want \/ e.found # (want # NoV) THEN V("C17_GetIsLatest", e, [k |-> e.k, got |-> e.val, want |-> want]) ELSE {})
                 \cup (IF e.tombstoned # wantT THEN V("C17_TombstoneMakesAbsent", e, [k |-> e.k, got |-> e.tombstoned, want |-> wantT]) ELSE {})]

OnDump(e) ==
  LET t == g.hs[e.h]
      d == DumpTree(e.entries)
  IN [g2 |-> g,
      v |-> IF e.outcome # "ok" THEN V("C17_UnexpectedFailure", e, e.err)
            ELSE (IF Strip(d) # Strip(t) THEN V("C17_CursorAgrees", e, [got |-> Strip(d), want |-> Strip(t)]) ELSE {})
                 \cup (IF ~e.sorted \/ e.size # Cardinality(DOMAIN t) THEN V("C17_CursorOrderAndSize", e, [sorted |-> e.sorted, size |-> e.size, want |-> Cardinality(DOMAIN t)]) ELSE {})]

OnDiff(e) ==
  LET mine == g.hs[e.h]
      from == GetD(g.hs, e.from, EmptyT)
      want == {<<k, Inner(mine, k), Inner(from, k)>> : k \in DiffKeys(mine, from)}
      got == {<<e.items[i][1], e.items[i][2], e.items[i][3]>> : i \in DOMAIN e.items}
  IN [g2 |-> g,
      v |-> IF e.outcome # "ok" THEN V("C17_UnexpectedFailure", e, e.err)
            ELSE IF got # want \/ Len(e.items) # Cardinality(got) THEN V("C17_DiffExact", e, [got |-> e.items, want |-> want]) ELSE {}]

(* TraceHistory: starts at the current entry, strictly decreasing times, only values that some version (or the  *)
(* handle itself) holds for that key with that time                                                             *)
OnTrace(e) ==
  LET t == g.hs[e.h]
      items == e.items
      known == {<<x[e.k].mod, x[e.k].val>> : x \in {y \in {g.vers[n] : n \in DOMAIN g.vers} \cup {t} : e.k \in DOMAIN y}}
      startsOK == IF e.k \in DOMAIN t THEN Len(items) >= 1 /\ items[1][1] = t[e.k].mod /\ items[1][2] = t[e.k].val ELSE Len(items) = 0
      decreasing == \A i \in 1..(Len(items) - 1) : items[i][1] > items[i + 1][1]
      sound == \A i \in DOMAIN items : <<items[i][1], items[i][2]>> \in known
  IN [g2 |-> g,
      v |-> IF e.outcome # "ok" THEN V("C17_UnexpectedFailure", e, e.err)
            ELSE IF ~(startsOK /\ decreasing /\ sound)
            THEN V("C17_TraceHistorySound", e, [k |-> e.k, items |-> items, starts |-> startsOK, decreasing |-> decreasing, sound |-> sound]) ELSE {}]

Handle(e) ==
  CASE e.ev = "reset"     -> [g2 |-> [G0 EXCEPT !.sc = e.sc], v |-> {}]
    [] e.ev = "s3"        -> OnS3(e)
    [] e.ev = "kv_open"   -> OnOpen(e)
    [] e.ev = "kv_set"    -> OnSet(e)
    [] e.ev = "kv_tomb"   -> OnTomb(e)
    [] e.ev = "kv_rmtomb" -> OnRmTomb(e)
    [] e.ev = "kv_commit" -> OnCommit(e)
    [] e.ev = "kv_clone"  -> OnClone(e)
    [] e.ev = "kv_close"  -> OnClose(e)
    [] e.ev = "kv_get"    -> OnGet(e)
    [] e.ev = "kv_dump"   -> OnDump(e)
    [] e.ev = "kv_diff"   -> OnDiff(e)
    [] e.ev = "kv_trace"  -> OnTrace(e)
    [] e.ev \in {"panic", "hang"} -> [g2 |-> g, v |-> V("C17_NoPanicNoHang", e, IF Has(e, "msg") THEN e.msg ELSE "-")]
    [] OTHER              -> [g2 |-> g, v |-> {}]

Init == l = 1 /\ g = G0 /\ viol = {}
Next == /\ l <= Len(Trace)
        /\ LET hh == Handle(Trace[l]) IN g' = hh.g2 /\ viol' = viol \cup hh.v
        /\ l' = l + 1
Spec == Init /\ [][Next]_vars
Report == (l = Len(Trace) + 1) => PrintT(<<"MONITOR", ToJson([events |-> Len(Trace), violations |-> viol])>>)
TraceAccepted == TLCGet("stats").diameter - 1 = Len(Trace)
=============================================================================
