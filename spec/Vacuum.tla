------------------------------ MODULE Vacuum ------------------------------
(***************************************************************************)
(* s3db_vacuum over content-addressed nodes (vtable_common.go Vacuum,      *)
(* kv.go DeleteHistoricVersions / getHistoricRootsAndNodes).               *)
(*                                                                         *)
(* The tree of a version is a function key -> 0 (absent) | t > 0 (live,    *)
(* written at t) | -t (deleted at t).  A node is the restriction of a tree *)
(* to one leaf of a fixed partition of the keys, so equal content = equal  *)
(* node: histories that return a leaf to an earlier content make old and   *)
(* new versions share nodes, which is what C09/C10 are about.              *)
(*                                                                         *)
(* Writers commit every statement (autocommit).  A version's creation time *)
(* is the time its writer (re)opened the table, as in the code.  Vacuum    *)
(* purges delete markers older than the cutoff, commits, walks the version *)
(* graph reachable from its own source, retires every version all of whose *)
(* successors were created at or before the cutoff, and deletes the nodes  *)
(* those versions dropped - with KeepRetained = TRUE except the nodes that *)
(* a retained version still uses (the repair of defect D12; FALSE is the   *)
(* rule as first built, kept to show TLC's counterexample).                *)
(***************************************************************************)
EXTENDS Integers, FiniteSets, Sequences, TLC, Json

CONSTANTS Writers, Keys, Leaves, MaxClock, MaxVer, MaxVac, MaxReopen, KeepRetained

VARIABLES current, merged, nodes,   \* the bucket
          ver,                      \* version id -> [tree, parents, created]
          w,                        \* writer -> [tree, src, created]
          clock, nvac, nre, hist
vars == <<current, merged, nodes, ver, w, clock, nvac, nre, hist>>
View == <<current, merged, nodes, ver, w, clock, nvac, nre>>

Empty == [k \in Keys |-> 0]
NodesOf(t) == {[leaf |-> L, ents |-> [k \in L |-> t[k]]] : L \in {L2 \in Leaves : \E k \in L2 : t[k] # 0}}
VisibleOf(t) == {k \in Keys : t[k] > 0}
Abs(x) == IF x < 0 THEN -x ELSE x
(* last-writer-wins merge of two trees (distinct times per key) *)
MergeT(a, b) == [k \in Keys |-> IF Abs(a[k]) >= Abs(b[k]) THEN a[k] ELSE b[k]]

Init == /\ current = {} /\ merged = {} /\ nodes = {} /\ ver = <<>>
        /\ w = [x \in Writers |-> [tree |-> Empty, src |-> {}, created |-> 0, open |-> FALSE, stale |-> FALSE]]
        /\ clock = 1 /\ nvac = 0 /\ nre = 0 /\ hist = <<>>

NVer == Len(ver)

Tick == /\ clock < MaxClock /\ clock' = clock + 1
        /\ hist' = hist
        /\ UNCHANGED <<current, merged, nodes, ver, w, nvac, nre>>

(* (re)open: merge everything under current/; a merge of >= 2 versions is committed *)
Open(x) ==
  LET t == IF current = {} THEN Empty
           ELSE LET RECURSIVE Fold(_, _)
                    Fold(S, acc) == IF S = {} THEN acc ELSE LET v == CHOOSE y \in S : TRUE IN Fold(S \ {v}, MergeT(acc, ver[v].tree))
                IN Fold(current, Empty)
      merges == Cardinality(current) >= 2
  IN /\ NVer < MaxVer
     \* a first open, a refresh that finds something new, or (bounded) a re-open that only renews the creation time
     /\ \/ ~w[x].open /\ nre' = nre
        \/ w[x].open /\ (current # w[x].src \/ w[x].stale) /\ nre' = nre
        \/ w[x].open /\ current = w[x].src /\ w[x].created < clock /\ nre < MaxReopen /\ nre' = nre + 1
     /\ IF merges
        THEN /\ ver' = Append(ver, [tree |-> t, parents |-> current, created |-> clock])
             /\ current' = {NVer + 1}
             /\ merged' = merged \cup current
             /\ nodes' = nodes \cup NodesOf(t)
             /\ w' = [w EXCEPT ![x] = [tree |-> t, src |-> {NVer + 1}, created |-> clock, open |-> TRUE, stale |-> FALSE]]
        ELSE /\ UNCHANGED <<ver, current, merged, nodes>>
             /\ w' = [w EXCEPT ![x] = [tree |-> t, src |-> current, created |-> clock, open |-> TRUE, stale |-> FALSE]]
     /\ hist' = Append(hist, [op |-> IF w[x].open THEN "refresh" ELSE "open", c |-> x, when |-> clock])
     /\ UNCHANGED <<clock, nvac>>

Publish(x, t) ==
  /\ ver' = Append(ver, [tree |-> t, parents |-> w[x].src, created |-> w[x].created])
  /\ current' = (current \ w[x].src) \cup {NVer + 1}
  /\ merged' = merged \cup w[x].src
  /\ nodes' = nodes \cup NodesOf(t)
  /\ w' = [w EXCEPT ![x].tree = t, ![x].src = {NVer + 1}]

UsedTimes(k) == {Abs(ver[v].tree[k]) : v \in 1..NVer} \cup {Abs(w[x].tree[k]) : x \in Writers}

Stmt(x, kind, k) ==
  /\ w[x].open /\ ~w[x].stale /\ NVer < MaxVer
  /\ clock \notin UsedTimes(k)
  /\ IF kind = "ins" THEN (w[x].tree[k] = 0 \/ (w[x].tree[k] < 0 /\ -w[x].tree[k] < clock)) ELSE w[x].tree[k] > 0
  /\ Publish(x, [w[x].tree EXCEPT ![k] = IF kind = "ins" THEN clock ELSE -clock])
  /\ hist' = Append(hist, [op |-> "stmt", c |-> x, kind |-> kind, key |-> k, wt |-> clock])
  /\ UNCHANGED <<clock, nvac, nre>>

(* the version graph reachable from writer x's sources through parents, over objects that exist *)
RECURSIVE AncOf(_, _, _)
AncOf(S, vr, exist) == LET T == S \cap exist IN
                       IF T = {} THEN {} ELSE T \cup AncOf((UNION {vr[v].parents : v \in T}) \ T, vr, exist \ T)

(* Documented usage (kv.go RemoveTombstones / DeleteHistoricVersions): the   *)
(* cutoff is older than any writer still in flight.  In the model: the     *)
(* vacuuming handle has merged every current version, and every other      *)
(* writer refreshes before it writes again (needsRefresh).                 *)
Vacuum(x, cutoff) ==
  /\ w[x].open /\ nvac < MaxVac /\ NVer < MaxVer
  /\ current = w[x].src
  /\ LET t0 == w[x].tree
         purged == [k \in Keys |-> IF t0[k] < 0 /\ -t0[k] < cutoff THEN 0 ELSE t0[k]]
         changed == purged # t0
         vr == IF changed THEN Append(ver, [tree |-> purged, parents |-> w[x].src, created |-> w[x].created]) ELSE ver
         cur1 == IF changed THEN (current \ w[x].src) \cup {NVer + 1} ELSE current
         mrg1 == IF changed THEN merged \cup w[x].src ELSE merged
         nds1 == IF changed THEN nodes \cup NodesOf(purged) ELSE nodes
         src1 == IF changed THEN {NVer + 1} ELSE w[x].src
         graph == AncOf(src1, vr, cur1 \cup mrg1)
         children(p) == {c \in graph : p \in vr[c].parents}
         cand == {p \in graph : children(p) # {} /\ \A c \in children(p) : vr[c].created <= cutoff}
         dropped == UNION {UNION {NodesOf(vr[p].tree) \ NodesOf(vr[c].tree) : c \in children(p)} : p \in cand}
         kept == NodesOf(purged) \cup UNION {NodesOf(vr[v].tree) : v \in graph \ cand}
         delnodes == IF KeepRetained THEN dropped \ kept ELSE dropped
         \* an empty current version that is older than the cutoff is deleted too
         delcur == IF purged = Empty /\ src1 # {} /\ \A v \in src1 : vr[v].created < cutoff THEN src1 ELSE {}
     IN /\ ver' = vr
        /\ current' = cur1 \ delcur
        /\ merged' = mrg1 \ cand
        /\ nodes' = nds1 \ delnodes
        /\ w' = [y \in Writers |-> IF y = x THEN [w[x] EXCEPT !.tree = purged, !.src = src1]
                                     ELSE [w[y] EXCEPT !.stale = TRUE]]
  /\ nvac' = nvac + 1
  /\ hist' = Append(hist, [op |-> "vacuum", c |-> x, cutoff |-> cutoff])
  /\ UNCHANGED <<clock, nre>>

Done == NVer = MaxVer \/ (nvac = MaxVac /\ clock = MaxClock)

Next == /\ ~Done
        /\ \/ Tick
           \/ \E x \in Writers : Open(x) \/ (\E k \in Keys, kind \in {"ins", "del"} : Stmt(x, kind, k))
                                 \/ (\E c \in 1..(MaxClock + 1) : Vacuum(x, c))

Spec == Init /\ [][Next]_vars

---------------------------------------------------------------------------
Retained == current \cup merged
(* C09: no retained version refers to a deleted object *)
C09_RetainedReachable == \A v \in Retained : NodesOf(ver[v].tree) \subseteq nodes
(* C09: the current version above all *)
C09_CurrentReachable == \A v \in current : NodesOf(ver[v].tree) \subseteq nodes
(* C09: vacuum never changes the rows (action property) *)
C09_SameRows == [][\A x \in Writers : (hist' # hist /\ hist'[Len(hist')].op = "vacuum" /\ hist'[Len(hist')].c = x)
                                        => VisibleOf(w'[x].tree) = VisibleOf(w[x].tree)]_vars
(* C10: after a vacuum no delete marker older than its cutoff remains in the vacuumer's tree *)
C10_NoOldMarkers == (hist # <<>> /\ hist[Len(hist)].op = "vacuum") =>
                      LET h == hist[Len(hist)] IN \A k \in Keys : ~(w[h.c].tree[k] < 0 /\ -w[h.c].tree[k] < h.cutoff)

Emit == Done => PrintT(<<"BEHAVIOUR", ToJson(hist)>>)
=============================================================================
