--------------------------- MODULE CreateMonitor ---------------------------
(***************************************************************************)
(* Trace validation of CREATE VIRTUAL TABLE executions of the real code    *)
(* against CreateOps (C20).  Every `create` event carries the abstract     *)
(* argument list TLC generated (abs.args), the concrete column names the   *)
(* driver spelled for it, and what the harness observed.  The verdict and  *)
(* the declared table are RECOMPUTED here from abs.args.                   *)
(***************************************************************************)
EXTENDS CreateOps, TLC, Json

CONSTANTS TraceFile, ColSeq, Props      \* ColSeq is unused here (common monitor interface)

Trace == ndJsonDeserialize(TraceFile)
VARIABLES l, sc, viol
vars == <<l, sc, viol>>

Has(r, f) == f \in DOMAIN r
V(pred, e, detail) == IF "C20" \in Props THEN {[sc |-> sc, prop |-> "C20", pred |-> pred, seq |-> e.seq, detail |-> detail]} ELSE {}

TypeLit(t) == IF t = "none" THEN "t:" ELSE "t:" \o t
Flag(b) == IF b THEN "i:1" ELSE "i:0"

OnCreate(e) ==
  LET args == e.abs.args
      want == Accepted(args)
      got == e.outcome = "ok"
      \* a storage fault during an acceptable CREATE, or an argument combination the documentation does not decide
      \* (s3_endpoint with the in-memory bucket): either outcome, but a failure must leave nothing behind
      either == e.fault \/ e.unspecified
  IN
  IF got # want /\ ~(either /\ want)
  THEN V(IF want THEN "C20_DocumentedIsAccepted" ELSE "C20_UndocumentedIsRejected", e, [sql |-> e.sql, err |-> e.err])
       \cup (IF ~got /\ (e.registered \/ e.recreate # "ok") THEN V("C20_FailureLeavesNothingRegistered", e, [sql |-> e.sql, err |-> e.err, registered |-> e.registered, recreate |-> e.recreate]) ELSE {})
  ELSE IF ~got
  THEN (IF e.registered \/ e.recreate # "ok" THEN V("C20_FailureLeavesNothingRegistered", e, [sql |-> e.sql, err |-> e.err, registered |-> e.registered, recreate |-> e.recreate]) ELSE {})
       \cup (IF e.dm # 0 THEN V("C20_FailureWritesNothing", e, [sql |-> e.sql, mutations |-> e.dm]) ELSE {})
  ELSE
  LET d == Declared(TheSpec(args))
      n == Len(d)
      shape == e.ti_outcome = "ok" /\ Len(e.ti) = n /\ Len(e.names) = n /\ Len(e.selcols) = n /\ Len(e.nullprobe) = n /\ Len(e.byname) = n /\ Len(e.byname_want) = n
  IN
  IF ~shape THEN V("C20_ColumnNamesAndOrder", e, [sql |-> e.sql, table_info |-> e.ti, want |-> e.names])
  ELSE
     (IF \E i \in 1..n : e.ti[i][1] # "t:" \o e.names[i] \/ e.selcols[i] # e.names[i]
      THEN V("C20_ColumnNamesAndOrder", e, [sql |-> e.sql, table_info |-> e.ti, select_star |-> e.selcols, want |-> e.names]) ELSE {})
     \cup (IF \E i \in 1..n : e.ti[i][4] # Flag(d[i].pk)
      THEN V("C20_KeyColumn", e, [sql |-> e.sql, table_info |-> e.ti, want |-> [i \in 1..n |-> d[i].pk]]) ELSE {})
     \* (the property lists names, order, key and NOT NULL behaviour; of the optional types it is only demanded that a
     \* column is not declared with a type it was not given: the given one or none)
     \cup (IF \E i \in 1..n : e.ti[i][2] \notin {TypeLit(d[i].type), "t:"}
      THEN V("C20_DeclaredType", e, [sql |-> e.sql, table_info |-> e.ti, want |-> [i \in 1..n |-> d[i].type]]) ELSE {})
     \cup (IF ~e.readonly /\ \E i \in 1..n : e.nullprobe[i] # (IF d[i].refuses_null THEN "constraint_notnull" ELSE "ok")
      THEN V("C20_NotNullBehaviour", e, [sql |-> e.sql, got |-> e.nullprobe, want |-> [i \in 1..n |-> d[i].refuses_null]]) ELSE {})
     \cup (IF ~e.readonly /\ (e.ins1 # "ok" \/ e.ins2 # (IF HasKey(args) THEN "constraint_pk" ELSE "ok") \/ e.count # (IF HasKey(args) THEN "i:1" ELSE "i:2"))
      THEN V("C20_KeyBehaviour", e, [sql |-> e.sql, first |-> e.ins1, second |-> e.ins2, count |-> e.count, haskey |-> HasKey(args)]) ELSE {})
     \cup (IF ~e.readonly /\ \E i \in 1..n : e.byname[i] # e.byname_want[i]
      THEN V("C20_ReadByName", e, [sql |-> e.sql, got |-> e.byname, want |-> e.byname_want, names |-> e.names]) ELSE {})
     \cup (IF e.readonly /\ (e.ins1 = "ok" \/ e.dm # 0)
      THEN V("C20_ReadonlyRefusesWrites", e, [sql |-> e.sql, first |-> e.ins1, mutations |-> e.dm]) ELSE {})
     \cup (IF ~e.registered \/ e.drop # "ok" \/ e.registered_after_drop
      THEN V("C20_RegistryFollowsTable", e, [sql |-> e.sql, registered |-> e.registered, drop |-> e.drop, after |-> e.registered_after_drop]) ELSE {})

Handle(e) ==
  CASE e.ev = "create" -> OnCreate(e)
    [] e.ev \in {"panic", "hang"} -> V("C20_NoPanicNoHang", e, IF Has(e, "msg") THEN e.msg ELSE "-")
    [] OTHER -> {}

Init == l = 1 /\ sc = "none" /\ viol = {}
Next == /\ l <= Len(Trace)
        /\ LET e == Trace[l] IN
             /\ sc' = IF e.ev = "reset" THEN e.sc ELSE sc
             /\ viol' = viol \cup (IF e.ev = "reset" THEN {} ELSE Handle(e))
        /\ l' = l + 1
Spec == Init /\ [][Next]_vars
Report == (l = Len(Trace) + 1) => PrintT(<<"MONITOR", ToJson([events |-> Len(Trace), violations |-> viol])>>)
TraceAccepted == TLCGet("stats").diameter - 1 = Len(Trace)
=============================================================================
