--------------------------- MODULE CryptoMonitor ---------------------------
(***************************************************************************)
(* Trace validation of executions of the real encryptor (directly and      *)
(* through kv.Open) against CryptoOps (C18).  Events: seal, damage, open,  *)
(* reseal, scan.  The expected result of every open is recomputed here     *)
(* from the recorded seals and damages.                                    *)
(***************************************************************************)
EXTENDS CryptoOps, TLC, Json

CONSTANTS TraceFile, ColSeq, Props      \* ColSeq is unused here (common monitor interface)

Trace == ndJsonDeserialize(TraceFile)
VARIABLES l, sc, boxes, seen, viol
vars == <<l, sc, boxes, seen, viol>>

Has(r, f) == f \in DOMAIN r
Put(f, k, v) == [x \in DOMAIN f \cup {k} |-> IF x = k THEN v ELSE f[x]]
V(pred, e, detail) == IF "C18" \in Props THEN {[sc |-> sc, prop |-> "C18", pred |-> pred, seq |-> e.seq, detail |-> detail]} ELSE {}

OnSeal(e) ==
  LET b == [key |-> e.key, msg |-> e.msg, fmt |-> e.fmt, via |-> e.via, dmg |-> "none"]
      id == <<e.key, e.msg, e.via>>
      v1 == IF e.outcome # "ok" THEN V("C18_SealWorks", e, e.err) ELSE {}
      \* no run of plaintext bytes in the stored object
      v2 == IF e.outcome = "ok" /\ e.leak THEN V("C18_NoPlaintextInStoredBytes", e, [box |-> e.box, len |-> e.len, what |-> e.leak_what]) ELSE {}
      \* deterministic: the same passphrase and plaintext always give the same bytes
      v3 == IF e.outcome = "ok" /\ e.fmt = "v1" /\ e.via = "func" /\ id \in DOMAIN seen /\ seen[id] # e.hash
            THEN V("C18_SameInputSameCiphertext", e, [box |-> e.box, then |-> seen[id], now |-> e.hash]) ELSE {}
      \* a kv node object is never stored a second time with other bytes
      v4 == IF e.outcome = "ok" /\ e.via = "kv" /\ e.rewritten THEN V("C18_UnchangedNodeNotStoredTwice", e, [box |-> e.box]) ELSE {}
  IN [b2 |-> Put(boxes, e.box, b),
      s2 |-> IF e.outcome = "ok" /\ e.fmt = "v1" /\ e.via = "func" /\ id \notin DOMAIN seen THEN Put(seen, id, e.hash) ELSE seen,
      v |-> v1 \cup v2 \cup v3 \cup v4]

OnDamage(e) == [b2 |-> [boxes EXCEPT ![e.box].dmg = e.kind], s2 |-> seen, v |-> {}]

OnOpen(e) ==
  LET b == boxes[e.box]
      want == OpenResult(b, e.key)
      got == IF e.outcome = "ok" THEN (IF e.same THEN b.msg ELSE "OTHER-DATA") ELSE Err
  IN [b2 |-> boxes, s2 |-> seen,
      v |-> IF got = want THEN {}
            ELSE IF want = Err /\ got # Err
            THEN V("C18_DamageOrWrongKeyIsAnError", e, [box |-> b, key |-> e.key, got |-> got, pos |-> IF Has(e, "pos") THEN e.pos ELSE -1])
            ELSE IF got = Err
            THEN V(IF b.fmt = "legacy" THEN "C18_LegacyStillReadable" ELSE "C18_RoundTrip", e, [box |-> b, key |-> e.key, err |-> e.err, len |-> e.len])
            ELSE V("C18_RoundTrip", e, [box |-> b, key |-> e.key, got |-> got, len |-> e.len])]

OnReseal(e) ==
  [b2 |-> boxes, s2 |-> seen,
   v |-> IF e.outcome # "ok" \/ ~e.same_bytes \/ (Has(e, "puts_other") /\ e.puts_other)
         THEN V("C18_SameInputSameCiphertext", e, [box |-> boxes[e.box], same_bytes |-> e.same_bytes]) ELSE {}]

Handle(e) ==
  CASE e.ev = "seal"   -> OnSeal(e)
    [] e.ev = "damage" -> OnDamage(e)
    [] e.ev = "open"   -> OnOpen(e)
    [] e.ev = "reseal" -> OnReseal(e)
    [] e.ev \in {"panic", "hang"} -> [b2 |-> boxes, s2 |-> seen, v |-> V("C18_NoPanicNoHang", e, IF Has(e, "msg") THEN e.msg ELSE "-")]
    [] OTHER -> [b2 |-> boxes, s2 |-> seen, v |-> {}]

Init == l = 1 /\ sc = "none" /\ boxes = <<>> /\ seen = <<>> /\ viol = {}
Next == /\ l <= Len(Trace)
        /\ LET e == Trace[l] IN
             IF e.ev = "reset"
             THEN sc' = e.sc /\ boxes' = <<>> /\ seen' = <<>> /\ viol' = viol
             ELSE LET h == Handle(e) IN sc' = sc /\ boxes' = h.b2 /\ seen' = h.s2 /\ viol' = viol \cup h.v
        /\ l' = l + 1
Spec == Init /\ [][Next]_vars
Report == (l = Len(Trace) + 1) => PrintT(<<"MONITOR", ToJson([events |-> Len(Trace), violations |-> viol])>>)
TraceAccepted == TLCGet("stats").diameter - 1 = Len(Trace)
=============================================================================
