----------------------------- MODULE CreateOps -----------------------------
(***************************************************************************)
(* CREATE VIRTUAL TABLE ... USING s3db(<arguments>): which argument lists  *)
(* are accepted and what table an accepted list declares (README "Virtual  *)
(* Table Reference"; vtable_common.go New / convertSchema, sql/parse.go    *)
(* Schema).  Pure operators, shared by the generator (Create.tla) and the  *)
(* trace validator (CreateMonitor.tla).                                    *)
(*                                                                         *)
(* A column definition is a record                                         *)
(*   [name, type, pk, nn, extra]                                           *)
(* name = a name id (the concrete spelling / quoting is chosen by the      *)
(* driver), type = "none" or one of the accepted type words, pk / nn =     *)
(* column-level PRIMARY KEY / NOT NULL, extra = "none" | "unique" |        *)
(* "default".  A column specification is [cols, tpk]: the sequence of      *)
(* column definitions and the names of a table-level PRIMARY KEY (...)     *)
(* clause (<<>> = no such clause; name id 0 is a name no column has).      *)
(*                                                                         *)
(* An argument is [opt, form, spec]: opt = the option name, form = "ok"    *)
(* (documented spelling with a well-formed value), "bad" (malformed        *)
(* value), "noval" (a valued option given without =value); spec = the      *)
(* column specification when opt = "columns".                              *)
(***************************************************************************)
EXTENDS Integers, Sequences, FiniteSets

Documented == {"columns", "entries_per_node", "node_cache_entries", "readonly", "s3_bucket", "s3_endpoint", "s3_prefix"}
NoSpec == [cols |-> <<>>, tpk |-> <<>>]

ColKeys(spec) == {i \in DOMAIN spec.cols : spec.cols[i].pk}
NamesDistinct(spec) == \A i, j \in DOMAIN spec.cols : i # j => spec.cols[i].name # spec.cols[j].name
NumKeyClauses(spec) == Cardinality(ColKeys(spec)) + (IF spec.tpk # <<>> THEN 1 ELSE 0)

SpecValid(spec) ==
  /\ Len(spec.cols) >= 1
  /\ NamesDistinct(spec)
  /\ \A i \in DOMAIN spec.cols : spec.cols[i].extra = "none"              \* UNIQUE and DEFAULT are rejected
  /\ NumKeyClauses(spec) <= 1                                              \* at most one PRIMARY KEY ...
  /\ Len(spec.tpk) <= 1                                                    \* ... over a single column
  /\ spec.tpk # <<>> => \E i \in DOMAIN spec.cols : spec.cols[i].name = spec.tpk[1]

(* index of the key column, 0 = none (rows are then keyed by a hidden row id) *)
KeyCol(spec) ==
  IF ColKeys(spec) # {} THEN CHOOSE i \in ColKeys(spec) : TRUE
  ELSE IF spec.tpk # <<>> THEN CHOOSE i \in DOMAIN spec.cols : spec.cols[i].name = spec.tpk[1]
  ELSE 0

(* the table an accepted specification declares: names in order, declared type, key flag, NOT NULL behaviour *)
Declared(spec) ==
  [i \in DOMAIN spec.cols |->
     [name |-> spec.cols[i].name, type |-> spec.cols[i].type,
      pk |-> (i = KeyCol(spec)),
      \* a NULL is refused in a NOT NULL column and in the key column
      refuses_null |-> (spec.cols[i].nn \/ i = KeyCol(spec))]]

ColumnsArgs(args) == {i \in DOMAIN args : args[i].opt = "columns"}
ArgValid(a) ==
  /\ a.opt \in Documented
  /\ a.form = "ok"
  /\ a.opt = "columns" => SpecValid(a.spec)
NoDuplicates(args) == \A i, j \in DOMAIN args : i # j => args[i].opt # args[j].opt

Accepted(args) ==
  /\ Cardinality(ColumnsArgs(args)) = 1
  /\ NoDuplicates(args)
  /\ \A i \in DOMAIN args : ArgValid(args[i])

TheSpec(args) == args[CHOOSE i \in ColumnsArgs(args) : TRUE].spec
(* an accepted list with a key is a key table: the same key twice is refused; without a key duplicates are rows *)
HasKey(args) == KeyCol(TheSpec(args)) # 0
=============================================================================
