------------------------------ MODULE Monitor ------------------------------
(***************************************************************************)
(* Trace validation ("monitor mode") of recorded executions of the real    *)
(* s3db code against the specification's vocabulary.                       *)
(*                                                                         *)
(* The harness executes scenarios on SQLite + the s3db extension + kv on a *)
(* fake object store and logs one NDJSON event per API call and per        *)
(* storage request.  This module replays the events deterministically      *)
(* through the ghost state of S3db.tla (versions, facts, client views) and *)
(* evaluates the property predicates after every event.  The actions are   *)
(* as permissive as the properties: they accept any request order, naming  *)
(* and timing; only the property predicates can fail.  A failed predicate  *)
(* is recorded in `viol` (scenario, property predicate, event, detail) and *)
(* the replay continues, so that one TLC run validates thousands of        *)
(* scenarios (separated by `reset` events) and reports every violation.    *)
(***************************************************************************)
EXTENDS Integers, FiniteSets, Sequences, TLC, Json

CONSTANTS TraceFile,   \* NDJSON file to validate
          ColSeq,      \* the non-key columns in the order the harness lists them
          Props        \* ids of the properties whose predicates are evaluated

Cols == {ColSeq[i] : i \in DOMAIN ColSeq}
ColIdx(c) == CHOOSE j \in DOMAIN ColSeq : ColSeq[j] = c
R == INSTANCE Rows

Trace == ndJsonDeserialize(TraceFile)

VARIABLES l, g, viol
vars == <<l, g, viol>>

Range(s) == {s[i] : i \in DOMAIN s}
Has(r, f) == f \in DOMAIN r
Get(f, k, d) == IF k \in DOMAIN f THEN f[k] ELSE d
Put(f, k, v) == [x \in DOMAIN f \cup {k} |-> IF x = k THEN v ELSE f[x]]

(* ---------- ghost state ---------- *)
G0 == [ sc      |-> "none",
        feats   |-> {},
        vfacts  |-> <<>>,      \* version token -> set of statements (facts)
        vpar    |-> <<>>,      \* version token -> set of parent tokens
        vcre    |-> <<>>,      \* version token -> creation time token: the (imposed) open / refresh time of the handle that wrote it
        cwhen   |-> <<>>,      \* client -> the imposed time of its last successful open / refresh
        wpend   |-> <<>>,      \* client -> the imposed time of the open / refresh it is inside of
        forget  |-> {},        \* statements that some s3db_vacuum call of the scenario was entitled to forget
        vby     |-> <<>>,      \* version token -> client that PUT it
        cur     |-> {},        \* bucket: tokens under root/current
        mrg     |-> {},        \* bucket: tokens under root/merged
        cfacts  |-> <<>>,      \* client -> facts in its view
        cpend   |-> <<>>,      \* client -> accepted but uncommitted facts
        csnap   |-> <<>>,      \* client -> facts at BEGIN
        csnaprows |-> <<>>,    \* client -> rows it showed last before BEGIN
        ctx     |-> <<>>,      \* client -> in explicit transaction
        cmode   |-> <<>>,      \* client -> "rw" | "ro" | "hist"
        cver    |-> <<>>,      \* client -> its current version set
        fresh   |-> <<>>,      \* client -> versions PUT by it during the current API call
        inflight|-> <<>>,      \* client -> the autocommit statement it is executing (from the `call` event)
        invac   |-> <<>>,      \* client -> cutoff of the vacuum it is executing
        acked   |-> {},        \* versions whose commit has returned to its caller
        ackedAt |-> <<>>,      \* client -> facts acknowledged before its current open began
        txputs  |-> <<>>,      \* client -> version PUTs since BEGIN
        txkeys  |-> <<>>,      \* client -> keys written since BEGIN
        obs     |-> {},        \* observations <<facts, rows>> of completed opens (C01)
        lastrows|-> <<>>,      \* client -> last rows it showed
        lastdump|-> <<>>,      \* client -> last register dump (entries)
        laststmt|-> <<>>,      \* client -> last accepted statement
        taken   |-> <<>>,      \* version set -> rows visible when s3db_version() returned it (C11)
        attr    |-> <<>>,      \* client -> [deadline, write_time] expected from s3db_conn
        lastcut |-> <<>>,      \* client -> cutoff of its last successful vacuum
        vgone   |-> {},        \* versions removed from root/merged/ (only a vacuum does that)
        snaps   |-> <<>>,      \* bucket snapshots taken by the scenario: name -> [cur, mrg, vgone]
        stepdel |-> <<>>,      \* client -> version tokens it DELETEd during the current API call
        reachb  |-> <<>>,      \* version token -> nodes it reached at the last `reach` tagged "before"
        txins   |-> <<>>,      \* client -> keys it INSERTed since BEGIN (or in the current autocommit statement)
        everins |-> <<>>,      \* client -> keys it has ever INSERTed through its current handle (KF-MAST-3)
        taint   |-> {},        \* keys INSERTed through a handle that later committed a version (KF-MAST-3, published)
        leakable|-> {},        \* keys INSERTed by a transaction that was rolled back or whose commit failed (KF-MAST-1)
        leakst  |-> {},        \* ... and those INSERT statements themselves
        ord     |-> <<>>,      \* <<a, b>> (concrete key literals) -> recorded result of Key.Order(a, b)
        cfail   |-> {},        \* clients whose last COMMIT failed (SQLite rolled the transaction back)
        fault   |-> {}         \* clients with an active fault / crash plan
      ]

(* ---------- decoding events ---------- *)
RowSet(rows) == { <<rows[i][1], [c \in Cols |-> rows[i][1 + ColIdx(c)]]>> : i \in DOMAIN rows }

StmtOf(e) ==
  [kind |-> e.kind, key |-> e.key, wt |-> e.wt, n |-> IF e.ev = "call" THEN e.seq ELSE IF Has(e, "cseq") THEN e.cseq ELSE e.seq,
   cols |-> IF e.kind = "ins"
            THEN [c \in Cols |-> IF e.vals[c] = "NONE" THEN R!NullV ELSE e.vals[c]]
            ELSE [c \in {x \in Cols : e.vals[x] # "NONE"} |-> e.vals[c]]]

Accepted(e) == e.outcome = "ok" /\ e.affected >= 1 /\ e.kind \in {"ins", "upd", "del"}

FactsOfVersions(V) == UNION {Get(g.vfacts, v, {}) : v \in V}
Ideal(F) == R!IdealTable(F)

(* visible rows of a register dump *)
ColOf(ent, c) == LET M == {i \in DOMAIN ent.cols : ent.cols[i][1] = c} IN
                 IF M = {} THEN R!NullV ELSE ent.cols[CHOOSE i \in M : TRUE][3]
DumpRows(entries) == { <<entries[i].key, [c \in Cols |-> ColOf(entries[i], c)]>> :
                         i \in {j \in DOMAIN entries : entries[j].live /\ ~entries[j].tomb} }
(* the part of a dump that must survive encode / store / load / decode *)
Canon(entries) == [i \in DOMAIN entries |->
                     [key |-> entries[i].key, modns |-> entries[i].modns, tomb |-> entries[i].tomb,
                      live |-> entries[i].live, st |-> entries[i].st, cols |-> entries[i].cols, prev |-> entries[i].prev]]

CanonSet(entries) == {Canon(entries)[i] : i \in DOMAIN entries}

(* ---------- violations ---------- *)
V(prop, pred, e, detail) ==
  IF prop \in Props THEN {[sc |-> g.sc, prop |-> prop, pred |-> pred, seq |-> e.seq, detail |-> detail]} ELSE {}
(* a predicate that several properties share *)
VAll(ps, suffix, e, detail) == UNION {V(p, p \o suffix, e, detail) : p \in ps}

IdealProps == {"C02", "C03", "C04", "C19", "C05", "C08", "C09", "C10", "C11", "C13", "C14", "C15", "C16"}
NoFault(c) == c \notin g.fault

(* A deviation that consists ONLY of extra rows whose keys were INSERTed by a rolled-back / failed transaction  *)
(* is reported under its own predicate name (known finding KF-MAST-1: the dependency's copy-on-write lets such *)
(* an INSERT survive the rollback); every other deviation keeps the plain name.                               *)
OnlyLeaked(rows, expected) == expected \subseteq rows /\ rows # expected /\ \A r \in rows \ expected : r[1] \in g.leakable
(* KF-MAST-3: with a node cache the same dependency defect corrupts the cached copy of an OLD node (the INSERT's *)
(* new child is written into it); when the tree later returns to that old content (the row was deleted and       *)
(* vacuumed) the handle that did the INSERT reads the stale row again.  Named only when the deviation is exactly  *)
(* extra rows whose keys this client once INSERTed.                                                              *)
(* When that handle goes on writing, the version it commits is built on the corrupted cached node and carries the  *)
(* stale row to every reader: extra rows whose keys were INSERTed through a handle that committed afterwards.        *)
OnlyStale(c, rows, expected) == expected \subseteq rows /\ rows # expected /\ \A r \in rows \ expected : r[1] \in Get(g.everins, c, {}) \cup g.taint
(* KF-EMPTYTEXT-1: the SQLite binding returns an empty TEXT as NULL.  Named only when the observed rows are    *)
(* exactly the expected rows with every empty text (value or key) read as NULL.                              *)
ET(v) == IF v = "t:" THEN R!NullV ELSE v
NormET(rows) == {<<ET(r[1]), [cc \in DOMAIN r[2] |-> ET(r[2][cc])]>> : r \in rows}
(* ... or, where a rolled-back INSERT hit a key that the view also holds from elsewhere: the table is, key by key,  *)
(* what Ideal gives when some of the rolled-back INSERTs of that key are counted in                                *)
RowsOfKey(rs, k) == {r \in rs : r[1] = k}
LeakExplains(rows, facts, k) ==
  LET Lk == {x \in g.leakst : x.key = k} IN
  Cardinality(Lk) <= 5 /\ \E L \in SUBSET Lk : L # {} /\ RowsOfKey(rows, k) = RowsOfKey(Ideal({f \in facts : f.key = k} \cup L), k)
LeakedOverrides(rows, expected, facts) ==
  LET DK == {r[1] : r \in (rows \ expected) \cup (expected \ rows)} IN
  DK # {} /\ \A k \in DK : LeakExplains(rows, facts, k)
Suffix(c, rows, expected, facts) == IF OnlyLeaked(rows, expected) \/ LeakedOverrides(rows, expected, facts) THEN "_LeakedInsert"
                             ELSE IF OnlyStale(c, rows, expected) THEN "_StaleCachedInsert"
                             ELSE IF rows = NormET(expected) THEN "_EmptyTextReadsNull" ELSE ""
CheckRows(e, c, facts, rows, where) ==
  LET ideal == Ideal(facts) IN
  IF rows # ideal
  THEN VAll(IdealProps, "_RowsAreIdeal" \o Suffix(c, rows, ideal, facts), e,
            [where |-> where, observed |-> rows, ideal |-> ideal, facts |-> facts])
  ELSE {}

PastDeadline(c) == Get(g.attr, c, [deadline |-> -1, write_time |-> -1]).deadline = -999
Unexpected(e, what) ==
  IF Has(e, "c") /\ (~NoFault(e.c) \/ PastDeadline(e.c)) THEN {}
  ELSE VAll(Props, "_UnexpectedFailure", e, [what |-> what, outcome |-> e.outcome, err |-> e.err])

(* ---------- event handlers: each yields the next ghost state and the new violations ---------- *)

OnReset(e) ==
  [g2 |-> [G0 EXCEPT !.sc = e.sc, !.feats = Range(e.features)], v |-> {}]

VacuumMayReclaim(p, cutoff) ==
  LET ch == {x \in DOMAIN g.vpar : p \in g.vpar[x]} IN ch # {} /\ \A x \in ch : Get(g.vcre, x, 0) <= cutoff

OnS3(e) ==
  LET c == e.c
      \* the content of a version is known when it is PUT: its parents' facts, what its writer had accepted and
      \* not committed, and the statement the writer is executing; a vacuum's commit holds the purged view
      putfacts == IF c \in DOMAIN g.invac THEN R!Purge(Get(g.cfacts, c, {}), g.invac[c])
                  ELSE (UNION {Get(g.vfacts, p, {}) : p \in Range(e.parents)}) \cup Get(g.cpend, c, {})
                       \cup (IF c \in DOMAIN g.inflight THEN {g.inflight[c]} ELSE {})
      g1 == IF e.op = "PUT" /\ e.res = "ok" /\ e.cls = "cur"
            THEN [g EXCEPT !.cur = @ \cup {e.name},
                           !.taint = @ \cup Get(g.everins, c, {}),
                           !.vfacts = IF e.name \in DOMAIN @ THEN @ ELSE Put(@, e.name, putfacts),
                           !.vpar = Put(@, e.name, Range(e.parents)),
                           \* (not the time the version object claims for itself: a version that inherits a stale creation
                           \* time would make a vacuum reclaim what its cutoff does not cover)
                           !.vcre = Put(@, e.name, IF c \in DOMAIN g.wpend THEN g.wpend[c] ELSE IF c \in DOMAIN g.cwhen THEN g.cwhen[c] ELSE e.created),
                           !.vby  = Put(@, e.name, c),
                           !.txputs = Put(@, c, Get(@, c, 0) + 1),
                           !.fresh = Put(@, c, Get(@, c, <<>>) \o <<e.name>>)]
            ELSE IF e.op = "PUT" /\ e.res = "ok" /\ e.cls = "mrg"
            THEN [g EXCEPT !.mrg = @ \cup {e.name}]
            ELSE IF e.op = "DELETE" /\ e.res = "ok" /\ e.cls = "cur"
            THEN [g EXCEPT !.cur = @ \ {e.name}, !.stepdel = Put(@, c, Get(@, c, {}) \cup {<<"cur", e.name>>})]
            ELSE IF e.op = "DELETE" /\ e.res = "ok" /\ e.cls = "mrg"
            THEN [g EXCEPT !.mrg = @ \ {e.name},
                           \* removed by a vacuum that was entitled to: every successor was created at or before its cutoff
                           !.vgone = IF c \in DOMAIN g.invac /\ VacuumMayReclaim(e.name, g.invac[c]) THEN @ \cup {e.name} ELSE @,
                           !.stepdel = Put(@, c, Get(@, c, {}) \cup {<<"mrg", e.name>>})]
            ELSE g
      ro == Get(g.cmode, c, "rw") \in {"ro", "hist"}
  IN [g2 |-> g1,
      v  |-> IF ro /\ e.op \in {"PUT", "DELETE"}
             THEN V("C13", "C13_NoMutation", e, <<e.op, e.cls, e.name, e.res>>) ELSE {}]

(* the versions client c PUT during the API call that just returned get    *)
(* their facts: parents' facts plus what c had accepted and not committed  *)
Finalize(gg, c, pend) ==
  LET fr == Get(gg.fresh, c, <<>>) IN
  [gg EXCEPT !.fresh = Put(@, c, <<>>),
             !.acked = @ \cup Range(fr),
             !.inflight = [x \in DOMAIN @ \ {c} |-> @[x]],
             !.cpend = Put(@, c, IF Len(fr) > 0 THEN {} ELSE pend)]

OnCall(e) ==
  LET c == e.c IN
  [g2 |-> IF e.op = "stmt" /\ e.intx = 0 THEN [g EXCEPT !.inflight = Put(@, c, StmtOf(e)), !.fresh = Put(@, c, <<>>)]
          ELSE IF e.op = "vacuum" THEN [g EXCEPT !.invac = Put(@, c, e.cutoff), !.fresh = Put(@, c, <<>>),
                                                  !.forget = @ \cup (Get(g.cfacts, c, {}) \ R!Purge(Get(g.cfacts, c, {}), e.cutoff))]
          ELSE IF e.op \in {"commit"} THEN [g EXCEPT !.fresh = Put(@, c, <<>>)]
          ELSE g,
   v |-> {}]

OnOpenStart(e) ==
  [g2 |-> [g EXCEPT !.fresh = Put(@, e.c, <<>>),
                    !.wpend = IF Has(e, "when") THEN Put(@, e.c, e.when) ELSE @,
                    !.ackedAt = Put(@, e.c, FactsOfVersions(g.acked)),
                    !.cmode = IF e.mode = "refresh" THEN @ ELSE Put(@, e.c, e.mode)],
   v |-> {}]

OnOpenDone(e) ==
  LET c == e.c IN
  IF e.outcome # "ok"
  THEN [g2 |-> [g EXCEPT !.wpend = [x \in DOMAIN @ \ {c} |-> @[x]]], v |-> Unexpected(e, "open")]
  ELSE IF PastDeadline(c) /\ e.dr > 0
  THEN [g2 |-> g, v |-> V("C15", "C15_DeadlineApplies", e, [requests |-> e.dr])]
  ELSE
  LET g1 == Finalize(g, c, {})
      vers == Range(e.version)
      facts == UNION {Get(g1.vfacts, v, {}) : v \in vers}
      rows == RowSet(e.rows)
      wrote == e.dm > 0
      g2 == [g1 EXCEPT !.cfacts = Put(@, c, facts),
                       !.cpend = Put(@, c, {}),
                       !.ctx = Put(@, c, FALSE),
                       !.cver = Put(@, c, vers),
                       !.everins = Put(@, c, {}),
                       !.obs = @ \cup {<<facts, rows>>},
                       !.cwhen = IF Has(e, "when") THEN Put(@, c, e.when) ELSE @,
                       !.wpend = [x \in DOMAIN @ \ {c} |-> @[x]],
                       !.lastrows = Put(@, c, rows)]
      v1 == IF e.rows_outcome = "ok" THEN CheckRows(e, c, facts, rows, "open")
            ELSE Unexpected([e EXCEPT !.outcome = e.rows_outcome, !.err = e.rows_err], "read after open")
      v2 == IF \E o \in g.obs : o[1] = facts /\ o[2] # rows
            THEN V("C01", "C01_SameFactsSameRows", e,
                   [observed |-> rows, other |-> (CHOOSE o \in g.obs : o[1] = facts /\ o[2] # rows)[2], facts |-> facts])
            ELSE {}
      \* fixpoint: the scenario numbers the consecutive read-write opens of a quiescent bucket
      \* (fix = n); from the third on, an open must not write.
      v3 == IF Has(e, "fix") /\ e.fix >= 3 /\ wrote
            THEN V("C01", "C01_Fixpoint", e, [fix |-> e.fix, mutations |-> e.dm]) ELSE {}
      \* a refresh that finds nothing new leaves s3db_version() unchanged
      v4 == IF Has(e, "refresh") /\ g.cur = Get(g.cver, c, {}) /\ vers # Get(g.cver, c, {})
            THEN V("C11", "C11_StableOnNoop", e, [before |-> Get(g.cver, c, {}), after |-> vers]) ELSE {}
      v5 == IF Has(e, "same") /\ e.rows_outcome = "ok" /\ rows # Get(g.lastrows, c, {})
            THEN V(e.same, e.same \o "_RowsUnchanged", e, [before |-> Get(g.lastrows, c, {}), after |-> rows]) ELSE {}
      \* C03: the opener's view contains every version whose commit had returned before its open began
      \* (what a vacuum - even one that died after its purge commit - may have forgotten is not missing)
      v6 == IF ~((Get(g.ackedAt, c, {}) \ g.forget) \subseteq facts)
            THEN VAll({"C03", "C04", "C14"}, "_OpenSeesAcked", e, [missing |-> (Get(g.ackedAt, c, {}) \ g.forget) \ facts, versions |-> vers]) ELSE {}
      \* C03: a final open of the quiescent bucket contains every acknowledged commit
      v7 == IF Has(e, "tag") /\ e.tag = "final" /\ ~(FactsOfVersions(g.acked) \subseteq facts)
            THEN VAll({"C03", "C19"}, "_EventuallyContained", e, [missing |-> FactsOfVersions(g.acked) \ facts, versions |-> vers]) ELSE {}
      \* C19: a refresh keeps everything the connection itself had already seen or committed (whatever the other
      \* threads do meanwhile): no serial order of the connections loses a connection's own committed statements
      v8 == IF Has(e, "refresh") /\ ~(Get(g.cfacts, c, {}) \subseteq facts)
            THEN V("C19", "C19_RefreshKeepsOwn", e, [missing |-> Get(g.cfacts, c, {}) \ facts, versions |-> vers]) ELSE {}
  IN [g2 |-> g2, v |-> v1 \cup v2 \cup v3 \cup v4 \cup v5 \cup v6 \cup v7 \cup v8]

OnStmt(e) ==
  LET c == e.c
      acc == Accepted(e)
      f == StmtOf(e)
      before == Get(g.cfacts, c, {})
      after == before \cup (IF acc THEN {f} ELSE {})
      pend == Get(g.cpend, c, {}) \cup (IF acc THEN {f} ELSE {})
      a0 == Get(g.attr, c, [deadline |-> -1, write_time |-> -1])
      \* (an INSERT refused by a constraint is refused before anything is written: it cannot leak)
      leak0 == IF e.outcome = "error" /\ e.intx = 0 /\ e.kind = "ins" THEN {e.key} ELSE {}
      g0 == [g EXCEPT !.cfacts = Put(@, c, after),
                      !.txins = IF acc /\ e.kind = "ins" /\ e.intx = 1 THEN Put(@, c, Get(@, c, {}) \cup {e.key}) ELSE @,
                      !.everins = IF acc /\ e.kind = "ins" THEN Put(@, c, Get(@, c, {}) \cup {e.key}) ELSE @,
                      \* a failed autocommit INSERT is rolled back by SQLite
                      !.leakable = @ \cup leak0,
                      !.leakst = @ \cup (IF leak0 # {} THEN {f} ELSE {}),
                      \* unless told to keep it, the harness sets write_time to the statement's wt first
                      !.attr = IF Has(e, "keep_wt") THEN @ ELSE Put(@, c, [a0 EXCEPT !.write_time = e.wt]),
                      !.laststmt = IF acc THEN Put(@, c, f) ELSE @,
                      !.txkeys = IF acc THEN Put(@, c, Get(@, c, {}) \cup {e.key}) ELSE @]
      g1 == IF e.intx = 1 THEN [g0 EXCEPT !.cpend = Put(@, c, pend)]
            ELSE IF e.outcome = "ok" THEN Finalize(g0, c, pend)
            ELSE \* the call failed: nothing is acknowledged (a version it PUT before failing keeps its facts)
                 [g0 EXCEPT !.fresh = Put(@, c, <<>>), !.inflight = [x \in DOMAIN @ \ {c} |-> @[x]]]
      g2 == IF e.intx = 0 /\ Has(e, "version") THEN [g1 EXCEPT !.cver = Put(@, c, Range(e.version))] ELSE g1
      ro == Get(g.cmode, c, "rw") \in {"ro", "hist"}
      prevver == Get(g.cver, c, {})
      v1 == IF ro /\ e.outcome = "ok" /\ e.affected >= 1
            THEN V("C13", "C13_WriteFails", e, [kind |-> e.kind, outcome |-> e.outcome]) ELSE {}
      v2 == IF e.outcome = "ok" /\ e.affected = 0 /\ e.intx = 0 /\ e.dm > 0
            THEN V("C16", "C16_NoopCommitNoPut", e, [mutations |-> e.dm]) ELSE {}
      v3 == IF e.outcome = "ok" /\ e.affected = 0 /\ e.intx = 0 /\ Has(e, "version") /\ Range(e.version) # prevver
            THEN V("C11", "C11_StableOnNoop", e, [before |-> prevver, after |-> Range(e.version)]) ELSE {}
      v4 == IF acc /\ e.intx = 0 /\ ~ro /\ Has(e, "version") /\ Ideal(before) # Ideal(after) /\ Range(e.version) = prevver
            THEN V("C11", "C11_ChangesOnChange", e, [version |-> prevver]) ELSE {}
      v5 == IF e.intx = 1 /\ e.dm > 0
            THEN V("C05", "C05_NothingLeaksEarly", e, [mutations |-> e.dm]) ELSE {}
      \* (a statement carrying a value that cannot be stored - TEXT that is not UTF-8 - may be refused with an error)
      v6 == IF e.outcome = "error" /\ ~ro /\ ~(Has(e, "unstorable") /\ e.unstorable) THEN Unexpected(e, "statement") ELSE {}
      v7 == IF PastDeadline(c) /\ e.outcome = "ok" /\ e.dm > 0
            THEN V("C15", "C15_DeadlineApplies", e, [mutations |-> e.dm]) ELSE {}
      \* a statement in autocommit mode that reports success and changes the table has published a version
      v9 == IF acc /\ e.intx = 0 /\ ~ro /\ Ideal(before) # Ideal(after) /\ Len(Get(g.fresh, c, <<>>)) = 0
            THEN VAll({"C04", "C05", "C14"}, "_AcknowledgedIsPublished", e, [stmt |-> f, versions_put |-> 0]) ELSE {}
      \* a statement in autocommit mode that reports failure has published no version
      v8 == IF e.outcome # "ok" /\ e.intx = 0 /\ Len(Get(g.fresh, c, <<>>)) > 0
            THEN V("C05", "C05_FailedCommitLeavesBucket", e, [versions |-> Get(g.fresh, c, <<>>), err |-> e.err]) ELSE {}
  IN [g2 |-> g2, v |-> v1 \cup v2 \cup v3 \cup v4 \cup v5 \cup v6 \cup v7 \cup v8 \cup v9]

OnRows(e) ==
  LET c == e.c
      rows == RowSet(e.rows)
      g1 == [g EXCEPT !.lastrows = Put(@, c, rows)]
  IN IF e.outcome # "ok" THEN [g2 |-> g, v |-> Unexpected(e, "read")]
     ELSE [g2 |-> g1,
           v |-> CheckRows(e, c, Get(g.cfacts, c, {}), rows, "rows")
                 \cup (IF Has(e, "same") /\ rows # Get(g.lastrows, c, {})
                       THEN V(e.same, e.same \o "_RowsUnchanged" \o Suffix(c, rows, Get(g.lastrows, c, {}), Get(g.cfacts, c, {})), e, [before |-> Get(g.lastrows, c, {}), after |-> rows]) ELSE {})
                 \* same_as_begin = 1: after ROLLBACK; = 2: after a COMMIT, if that COMMIT failed
                 \cup (IF Has(e, "same_as_begin") /\ (e.same_as_begin = 1 \/ c \in g.cfail) /\ rows # Get(g.csnaprows, c, {})
                       THEN V("C05", IF OnlyLeaked(rows, Get(g.csnaprows, c, {})) THEN "C05_RollbackRestores_LeakedInsert" ELSE "C05_RollbackRestores",
                              e, [before |-> Get(g.csnaprows, c, {}), after |-> rows]) ELSE {})]

OnBegin(e) ==
  LET c == e.c IN
  [g2 |-> IF e.outcome = "ok"
          THEN [g EXCEPT !.ctx = Put(@, c, TRUE), !.csnap = Put(@, c, Get(g.cfacts, c, {})),
                         !.csnaprows = Put(@, c, Get(g.lastrows, c, {})),
                         !.txputs = Put(@, c, 0), !.txkeys = Put(@, c, {}), !.txins = Put(@, c, {})]
          ELSE g,
   v |-> IF e.outcome # "ok" THEN Unexpected(e, "begin") ELSE {}]

OnCommit(e) ==
  LET c == e.c
      \* a failed COMMIT is rolled back by SQLite (xRollback): the view returns to the BEGIN snapshot
      g1 == IF e.outcome = "ok" THEN Finalize([g EXCEPT !.ctx = Put(@, c, FALSE), !.cfail = @ \ {c}], c, Get(g.cpend, c, {}))
            ELSE [g EXCEPT !.ctx = Put(@, c, FALSE), !.cfacts = Put(@, c, Get(g.csnap, c, {})), !.cpend = Put(@, c, {}),
                           !.fresh = Put(@, c, <<>>), !.cfail = @ \cup {c}, !.leakable = @ \cup Get(g.txins, c, {}),
                           !.leakst = @ \cup {x \in Get(g.cpend, c, {}) : x.kind = "ins"}]
      g2 == IF e.outcome = "ok" /\ Has(e, "version") THEN [g1 EXCEPT !.cver = Put(@, c, Range(e.version))] ELSE g1
      v1 == IF e.outcome = "ok" /\ Get(g.txputs, c, 0) > 1
            THEN V("C05", "C05_CommitIsOneVersion", e, [versions |-> Get(g.txputs, c, 0)]) ELSE {}
      v2 == IF e.outcome = "ok" /\ Get(g.cpend, c, {}) = {} /\ e.dm > 0
            THEN V("C16", "C16_NoopCommitNoPut", e, [mutations |-> e.dm]) ELSE {}
      v3 == IF e.outcome # "ok" THEN Unexpected(e, "commit") ELSE {}
      \* a COMMIT that reports success and changes the table has published a version
      v5 == IF e.outcome = "ok" /\ Get(g.txputs, c, 0) = 0 /\ Get(g.cmode, c, "rw") = "rw"
               /\ Ideal(Get(g.csnap, c, {})) # Ideal(Get(g.cfacts, c, {})) /\ Get(g.ctx, c, FALSE)
            THEN VAll({"C04", "C05", "C14"}, "_AcknowledgedIsPublished", e, [pending |-> Get(g.cpend, c, {}), versions_put |-> 0]) ELSE {}
      \* a COMMIT that reports failure is a forced ROLLBACK: it has published no version
      v4 == IF e.outcome # "ok" /\ Get(g.txputs, c, 0) > 0
            THEN V("C05", "C05_FailedCommitLeavesBucket", e, [versions |-> Get(g.txputs, c, 0), err |-> e.err]) ELSE {}
  IN [g2 |-> g2, v |-> v1 \cup v2 \cup v3 \cup v4 \cup v5]

OnRollback(e) ==
  LET c == e.c
      g1 == IF e.outcome = "ok"
            THEN [g EXCEPT !.ctx = Put(@, c, FALSE), !.cfacts = Put(@, c, Get(g.csnap, c, {})), !.cpend = Put(@, c, {}),
                           !.leakable = @ \cup Get(g.txins, c, {}),
                           !.leakst = @ \cup {x \in Get(g.cpend, c, {}) : x.kind = "ins"}]
            ELSE g
      v1 == IF Get(g.txputs, c, 0) > 0 \/ e.dm > 0
            THEN V("C05", "C05_RollbackLeavesBucket", e, [versions |-> Get(g.txputs, c, 0), mutations |-> e.dm]) ELSE {}
  IN [g2 |-> g1, v |-> v1 \cup (IF e.outcome # "ok" THEN Unexpected(e, "rollback") ELSE {})]

OnVersion(e) ==
  LET c == e.c
      names == Range(e.names)
  IN IF e.outcome # "ok" THEN [g2 |-> g, v |-> Unexpected(e, "s3db_version")]
     ELSE IF ~Has(e, "save") THEN [g2 |-> [g EXCEPT !.cver = Put(@, c, names)], v |-> {}]
     ELSE
     LET rows == RowSet(e.rows)
         known == names \in DOMAIN g.taken
         g1 == [g EXCEPT !.cver = Put(@, c, names),
                         !.taken = IF known THEN @ ELSE Put(@, names, rows)]
         v1 == IF known /\ g.taken[names] # rows
               THEN V("C11", "C11_SameRowsLater", e, [version |-> names, then |-> g.taken[names], now |-> rows]) ELSE {}
         \* the named versions explain the rows: rows = Ideal(facts of those versions)
         v2 == IF ~Get(g.ctx, c, FALSE) /\ rows # Ideal(FactsOfVersions(names))
               THEN V("C11", "C11_ListsMerged", e, [version |-> names, rows |-> rows, ideal |-> Ideal(FactsOfVersions(names))]) ELSE {}
     IN [g2 |-> g1, v |-> v1 \cup v2]

OnChanges(e) ==
  LET c == e.c
      F == Range(e.from)
      T == Range(e.to)
      A == Ideal(FactsOfVersions(F))
      B == IF e.has_to THEN Ideal(FactsOfVersions(T)) ELSE Ideal(FactsOfVersions(g.cur))
      Rs == RowSet(e.rows)
      named == F \cup (IF e.has_to THEN T ELSE {})
  IN IF e.outcome # "ok"
     THEN \* without a fault, and with every named version still in the bucket, the query must not fail
          [g2 |-> g, v |-> IF NoFault(c) /\ named \subseteq (g.cur \cup g.mrg)
                           THEN V("C12", "C12_NoFailure", e, [from |-> F, to |-> T, err |-> e.err]) \cup Unexpected(e, "s3db_changes") ELSE {}]
     ELSE IF ~((F \cup (IF e.has_to THEN T ELSE {})) \subseteq (g.cur \cup g.mrg))
     THEN [g2 |-> g, v |-> V("C12", "C12_MissingVersionFails", e, [from |-> F, to |-> T, gone |-> (F \cup T) \ (g.cur \cup g.mrg), result |-> Rs])]
     ELSE [g2 |-> g,
           v |-> (IF ~(Rs \subseteq B) THEN VAll({"C12", "C14"}, "_ChangesSound", e, [from |-> F, to |-> T, extra |-> Rs \ B, result |-> Rs]) ELSE {})
                 \cup (IF ~((B \ A) \subseteq Rs) THEN VAll({"C12", "C14"}, "_ChangesComplete", e, [from |-> F, to |-> T, missing |-> (B \ A) \ Rs, result |-> Rs]) ELSE {})
                 \cup (IF F = {} /\ e.has_to /\ T \in DOMAIN g.taken /\ Rs # g.taken[T]
                       THEN V("C11", "C11_SameRowsLater", e, [version |-> T, then |-> g.taken[T], now |-> Rs, via |-> "s3db_changes"]) ELSE {})]

OnDump(e) ==
  LET c == e.c
      g1 == [g EXCEPT !.lastdump = Put(@, c, e)]
      hasLs == c \in DOMAIN g.laststmt
      ls == IF hasLs THEN g.laststmt[c] ELSE [kind |-> "del"]
      ents == {e.entries[i] : i \in DOMAIN e.entries}
      v1 == IF Has(e, "tag") /\ e.tag = "stamp" /\ hasLs
            THEN IF ls.kind = "del" THEN {} ELSE
                 LET M == {x \in ents : x.key = ls.key} IN
                 IF M = {} \/ \E x \in M : \E cc \in DOMAIN ls.cols :
                        ~(\E i \in DOMAIN x.cols : x.cols[i][1] = cc /\ x.cols[i][2] = ls.wt /\ x.cols[i][3] = ls.cols[cc])
                 THEN V("C15", "C15_StampedWithWriteTime", e, [stmt |-> ls, entry |-> M]) ELSE {}
            ELSE {}
      v2 == IF Has(e, "tag") /\ e.tag = "txdump"
            THEN LET K == Get(g.txkeys, c, {})
                     TS == {x.modns : x \in {y \in ents : y.key \in K}} IN
                 IF Cardinality(TS) > 1 THEN V("C05", "C05_OneWriteTime", e, [times |-> TS]) ELSE {}
            ELSE {}
      cut == Get(g.lastcut, c, 0)
      facts == Get(g.cfacts, c, {})
      deadkeys == {k \in {f.key : f \in facts} : ~R!IdealLive({f \in facts : f.key = k}) /\ \E f \in facts : f.key = k /\ f.kind \in {"ins", "del"}}
      v3 == IF Has(e, "tag") /\ e.tag = "vacdump"
            THEN (IF \E x \in ents : x.tomb \/ (~x.live /\ x.st < cut)
                  THEN V("C10", "C10_NoOldMarkers", e, [cutoff |-> cut, entries |-> {x \in ents : x.tomb \/ (~x.live /\ x.st < cut)}]) ELSE {})
                 \cup (IF \E k \in deadkeys : ~(\E x \in ents : x.key = k /\ ~x.live /\ ~x.tomb)
                       THEN V("C10", "C10_MarkerKept", e, [cutoff |-> cut, keys |-> {k \in deadkeys : ~(\E x \in ents : x.key = k /\ ~x.live /\ ~x.tomb)}]) ELSE {})
            ELSE {}
      \* scan order of the writer's in-memory tree against native SQLite's order of the same keys
      v4 == IF Has(e, "order_ok") /\ ~e.order_ok THEN V("C16", "C16_StrictlyIncreasing", e, [keys |-> [i \in DOMAIN e.entries |-> e.entries[i].key]]) ELSE {}
  IN IF e.outcome # "ok" THEN [g2 |-> g, v |-> Unexpected(e, "dump")] ELSE [g2 |-> g1, v |-> v1 \cup v2 \cup v3 \cup v4]

OnKVDump(e) ==
  LET c == e.c IN
  IF e.outcome # "ok"
  THEN \* a named version that vacuum reclaimed may be unreadable; one that is still in the bucket must not be
       \* (a version that is in neither directory although no vacuum removed it has been LOST: C11)
       [g2 |-> g, v |-> IF e.has_only /\ (Range(e.only) \cap g.vgone # {}) THEN {}
                        ELSE IF e.has_only /\ ~(Range(e.only) \subseteq (g.cur \cup g.mrg))
                        THEN VAll({"C11", "C04", "C14"}, "_NamedVersionLost", e, [only |-> e.only, err |-> e.err, current |-> g.cur])
                        ELSE Unexpected(e, "open of named versions")]
  ELSE
  LET only == Range(e.only)
      rows == DumpRows(e.entries)
      v1 == IF e.has_only /\ only \in DOMAIN g.taken /\ g.taken[only] # rows
            THEN V("C11", "C11_SameRowsLater", e, [version |-> only, then |-> g.taken[only], now |-> rows, via |-> "open"]) ELSE {}
      \* compare with the dump of the writer named by `tag` (same version): decoding gives back what was encoded
      w == IF Has(e, "tag") THEN e.tag ELSE "-"
      wd == IF w \in DOMAIN g.lastdump THEN g.lastdump[w] ELSE e
      v2 == IF w \notin DOMAIN g.lastdump THEN {} ELSE
            IF Canon(wd.entries) # Canon(e.entries) \/ wd.size # e.size \/ wd.height # e.height
            THEN V("C16", \* (KF-MAST-1: the writer's in-memory tree still holds an INSERT that was rolled back / failed)
                   IF CanonSet(e.entries) \subseteq CanonSet(wd.entries) /\ \A x \in CanonSet(wd.entries) \ CanonSet(e.entries) : x.key \in g.leakable
                   THEN "C16_DecodesToSame_LeakedInsert" ELSE "C16_DecodesToSame", e, [writer |-> [entries |-> Canon(wd.entries), size |-> wd.size, height |-> wd.height],
                                                    reader |-> [entries |-> Canon(e.entries), size |-> e.size, height |-> e.height]]) ELSE {}
      v3 == IF e.has_only THEN CheckRows(e, c, FactsOfVersions(only), rows, "open of named versions") ELSE {}
      \* scan order of the decoded tree against native SQLite's order of the same keys
      v4 == IF Has(e, "order_ok") /\ ~e.order_ok THEN V("C16", "C16_StrictlyIncreasing", e, [keys |-> [i \in DOMAIN e.entries |-> e.entries[i].key]]) ELSE {}
  IN [g2 |-> g, v |-> v1 \cup v2 \cup v3 \cup v4]

OnReach(e) ==
  LET vs == {e.versions[i] : i \in DOMAIN e.versions}
      \* after a crash only the current versions are demanded (tag "crash"); otherwise every retained version
      scope == IF Has(e, "tag") /\ e.tag = "crash" THEN {x \in vs : x.cls = "cur"} ELSE vs
      bad == {x \in scope : Len(x.missing) > 0 \/ Len(x.undecodable) > 0}
      isBefore == Has(e, "tag") /\ e.tag = "before"
      isAfter == Has(e, "tag") /\ e.tag = "after"
      g1 == IF isBefore THEN [g EXCEPT !.reachb = [n \in {x.name : x \in vs} |-> Range((CHOOSE x \in vs : x.name = n).nodes)]] ELSE g
      present == {x.name : x \in vs}
      needed == UNION {Range(x.nodes) : x \in vs}
      reclaimed == DOMAIN g.reachb \ present
      orphan == {n \in Range(e.nodes) : n \notin needed /\ \E p \in reclaimed : n \in g.reachb[p]}
  IN [g2 |-> g1,
      v |-> (IF bad # {} THEN VAll({"C16", "C09", "C04", "C05"}, "_AllReachableExist", e, bad) ELSE {})
            \cup (IF isAfter /\ orphan # {} THEN V("C10", "C10_NoOrphanOnlyTheyNeeded", e, [orphans |-> orphan, reclaimed |-> reclaimed]) ELSE {})]

OnBucket(e) ==
  [g2 |-> g,
   v |-> IF Len(e.rewritten) > 0 THEN V("C16", "C16_NeverRewrittenDifferently", e, e.rewritten) ELSE {}]

OnConnSet(e) ==
  LET c == e.c
      a0 == Get(g.attr, c, [deadline |-> -1, write_time |-> -1])
      a1 == IF e.outcome = "ok" THEN [a0 EXCEPT ![e.attr] = e.t] ELSE a0
  IN [g2 |-> [g EXCEPT !.attr = Put(@, c, a1)], v |-> {}]

OnConnGet(e) ==
  LET c == e.c
      a == Get(g.attr, c, [deadline |-> -1, write_time |-> -1])
  IN [g2 |-> g,
      v |-> IF e.outcome # "ok" \/ e.deadline # a.deadline \/ e.write_time # a.write_time
            THEN VAll({"C15", "C19"}, "_ReadBack", e, [expected |-> a, deadline |-> e.deadline, write_time |-> e.write_time]) ELSE {}]

(* s3db_vacuum *)
RECURSIVE AncOf(_, _)
AncOf(S, exist) == LET T == S \cap exist IN
                   IF T = {} THEN {} ELSE T \cup AncOf((UNION {Get(g.vpar, v, {}) : v \in T}) \ T, exist \ T)

OnVacuum(e) ==
  LET c == e.c
      ro == Get(g.cmode, c, "rw") \in {"ro", "hist"}
  IN IF e.outcome # "ok"
     THEN \* a vacuum that failed after its purge commit: the version it PUT holds the purged view
          [g2 |-> [g EXCEPT !.fresh = Put(@, c, <<>>), !.stepdel = Put(@, c, {}), !.invac = [x \in DOMAIN @ \ {c} |-> @[x]]],
           v |-> IF ro THEN {} ELSE Unexpected(e, "s3db_vacuum")]
     ELSE
     LET cutoff == e.cutoff
         pf == R!Purge(Get(g.cfacts, c, {}), cutoff)
         fr == Get(g.fresh, c, <<>>)
         del == Get(g.stepdel, c, {})
         delm == {d[2] : d \in {x \in del : x[1] = "mrg"}}
         exist == g.cur \cup g.mrg \cup {d[2] : d \in del}
         graph == AncOf(Range(e.version), exist)
         children(p) == {x \in graph : p \in Get(g.vpar, x, {})}
         cand == {p \in graph : children(p) # {} /\ \A x \in children(p) : Get(g.vcre, x, 0) <= cutoff}
         g1 == [g EXCEPT !.cfacts = Put(@, c, pf), !.cpend = Put(@, c, {}),
                         !.acked = @ \cup Range(fr), !.invac = [x \in DOMAIN @ \ {c} |-> @[x]],
                         !.cver = Put(@, c, Range(e.version)), !.fresh = Put(@, c, <<>>),
                         !.lastcut = Put(@, c, cutoff), !.stepdel = Put(@, c, {})]
         v1 == IF ro THEN V("C13", "C13_WriteFails", e, [kind |-> "vacuum", outcome |-> e.outcome]) ELSE {}
         \* repeating the same vacuum changes nothing in the bucket (re-deleting an absent object is not a change)
         v2 == IF Has(e, "tag") /\ e.tag = "again" /\ e.dme > 0
               THEN V("C10", "C10_Idempotent", e, [effective_mutations |-> e.dme]) ELSE {}
         v3 == IF cand \cap g.mrg # {}
               THEN V("C10", "C10_OldVersionsGone", e, [cutoff |-> cutoff, still_there |-> cand \cap g.mrg]) ELSE {}
         v4 == IF \E x \in delm : Get(g.vcre, x, 0) > cutoff
               THEN VAll({"C09", "C10"}, "_KeepsNewerVersions", e, [cutoff |-> cutoff, deleted |-> {x \in delm : Get(g.vcre, x, 0) > cutoff}]) ELSE {}
         v5 == IF ~(delm \subseteq cand)
               THEN VAll({"C09", "C10"}, "_OnlySupersededDeleted", e, [cutoff |-> cutoff, deleted |-> delm \ cand]) ELSE {}
     IN [g2 |-> g1, v |-> v1 \cup v2 \cup v3 \cup v4 \cup v5]

(* a default-time transaction over two tables of one connection: one write time *)
OnTx2(e) ==
  [g2 |-> g,
   v |-> IF e.outcome # "ok" THEN Unexpected(e, "two-table transaction")
         ELSE IF Cardinality(Range(e.times)) # 1 THEN V("C05", "C05_OneWriteTime", e, [times |-> Range(e.times), tables |-> 2]) ELSE {}]

(* one SQL statement run on the s3db table and on a native WITHOUT ROWID table of the same connection *)
SeqToBag(sq) == [x \in Range(sq) |-> Cardinality({i \in DOMAIN sq : sq[i] = x})]
OnSql(e) ==
  IF ~Has(e, "sh_outcome") THEN [g2 |-> g, v |-> {}]
  ELSE
  LET sameOutcome == e.outcome = e.sh_outcome /\ (e.kind = "query" \/ e.outcome # "ok" \/ e.affected = e.sh_affected)
      sameRows == e.kind # "query" \/ e.outcome # "ok" \/ e.sh_outcome # "ok"
                  \/ (IF e.ordered = 1 THEN e.rows = e.sh_rows ELSE SeqToBag(e.rows) = SeqToBag(e.sh_rows))
      TableProps == {"C06", "C07", "C08"}
      \* KF-EMPTYTEXT-1 in SQL form: the statement names the empty string, or the native result contains one
      involvesET == (\E i \in DOMAIN e.args : e.args[i] = "t:") \/ (\E i \in DOMAIN e.sh_rows : \E j \in DOMAIN e.sh_rows[i] : e.sh_rows[i][j] = "t:")
      \* KF-MAST-4: same rows as a SET, but repeated / misplaced (a corrupted cached node is visited twice)
      sameSet == e.kind = "query" /\ e.outcome = "ok" /\ e.sh_outcome = "ok" /\ Range(e.rows) = Range(e.sh_rows)
      sfx == IF involvesET THEN "_EmptyTextInvolved" ELSE IF sameSet THEN "_SameSetDifferentSequence" ELSE ""
  IN [g2 |-> g,
      v |-> (IF ~sameOutcome THEN VAll(TableProps, "_SameOutcome" \o sfx, e,
                    [q |-> e.q, args |-> e.args, s3db |-> <<e.outcome, e.affected, e.err>>, native |-> <<e.sh_outcome, e.sh_affected>>]) ELSE {})
            \cup (IF ~sameRows THEN VAll(TableProps, "_SameRows" \o sfx, e, [q |-> e.q, args |-> e.args, s3db |-> e.rows, native |-> e.sh_rows]) ELSE {})]

(* C07: direct comparisons.  ak / bk are the abstract keys (KeyOrder.tla) of the concrete literals a / b. *)
KClsRank(c) == CASE c = "num" -> 0 [] c = "text" -> 1 [] c = "blob" -> 2
KSign(x) == IF x < 0 THEN -1 ELSE IF x > 0 THEN 1 ELSE 0
KCmp(a, b) == IF a.cls # b.cls THEN KSign(KClsRank(a.cls) - KClsRank(b.cls)) ELSE KSign(a.pos - b.pos)
OnOrder(e) ==
  LET want == KCmp(e.ak, e.bk) IN
  [g2 |-> [g EXCEPT !.ord = Put(@, <<e.a, e.b>>, KSign(e.res))],
   v |-> (IF Has(e, "panic") THEN V("C07", "C07_NoCrash", e, [a |-> e.a, b |-> e.b, panic |-> e.panic]) ELSE {})
         \cup (IF ~Has(e, "panic") /\ KSign(e.res) # want THEN V("C07", "C07_CmpMatches", e, [a |-> e.a, b |-> e.b, got |-> e.res, want |-> want]) ELSE {})
         \* the specification's order must itself agree with native SQLite; if not, the machinery is wrong (exit 2)
         \cup (IF e.native # want THEN V("C07", "C07_SPEC_DISAGREES_WITH_SQLITE", e, [a |-> e.a, b |-> e.b, native |-> e.native, spec |-> want]) ELSE {})]
OnOrderDone(e) ==
  LET P == DOMAIN g.ord
      K == {p[1] : p \in P}
      anti == {p \in P : <<p[2], p[1]>> \in P /\ g.ord[p] # -g.ord[<<p[2], p[1]>>]}
      trans == {t \in K \X K \X K : <<t[1], t[2]>> \in P /\ <<t[2], t[3]>> \in P /\ <<t[1], t[3]>> \in P
                                      /\ g.ord[<<t[1], t[2]>>] <= 0 /\ g.ord[<<t[2], t[3]>>] <= 0 /\ g.ord[<<t[1], t[3]>>] > 0}
  IN [g2 |-> g,
      v |-> (IF anti # {} THEN V("C07", "C07_Antisym", e, anti) ELSE {})
            \cup (IF trans # {} THEN V("C07", "C07_Trans", e, trans) ELSE {})]

(* the scenario saves / reinstates the whole bucket (to try several continuations from one state) *)
OnSnapshot(e) == [g2 |-> [g EXCEPT !.snaps = Put(@, e.name, [cur |-> g.cur, mrg |-> g.mrg, vgone |-> g.vgone])], v |-> {}]
OnRestore(e) == [g2 |-> IF e.name \in DOMAIN g.snaps
                        THEN [g EXCEPT !.cur = g.snaps[e.name].cur, !.mrg = g.snaps[e.name].mrg, !.vgone = g.snaps[e.name].vgone]
                        ELSE g, v |-> {}]
OnPlan(e) == [g2 |-> [g EXCEPT !.fault = @ \cup {e.c}], v |-> {}]
OnHeal(e) == [g2 |-> [g EXCEPT !.fault = @ \ {e.c}], v |-> {}]

OnPanic(e) ==
  [g2 |-> g, v |-> VAll(Props, "_NoPanicNoHang", e, [what |-> e.ev, op |-> e.op, msg |-> IF Has(e, "msg") THEN e.msg ELSE "-"])]

Handle(e) ==
  CASE e.ev = "reset"      -> OnReset(e)
    [] e.ev = "s3"         -> OnS3(e)
    [] e.ev = "call"       -> OnCall(e)
    [] e.ev = "open_start" -> OnOpenStart(e)
    [] e.ev = "open_done"  -> OnOpenDone(e)
    [] e.ev = "stmt"       -> OnStmt(e)
    [] e.ev = "rows"       -> OnRows(e)
    [] e.ev = "begin"      -> OnBegin(e)
    [] e.ev = "commit"     -> OnCommit(e)
    [] e.ev = "rollback"   -> OnRollback(e)
    [] e.ev = "version"    -> OnVersion(e)
    [] e.ev = "changes"    -> OnChanges(e)
    [] e.ev = "dump"       -> OnDump(e)
    [] e.ev = "kvdump"     -> OnKVDump(e)
    [] e.ev = "reach"      -> OnReach(e)
    [] e.ev = "bucket"     -> OnBucket(e)
    [] e.ev = "conn_set"   -> OnConnSet(e)
    [] e.ev = "conn_get"   -> OnConnGet(e)
    [] e.ev = "vacuum"     -> OnVacuum(e)
    [] e.ev = "tx2"        -> OnTx2(e)
    [] e.ev = "sql"        -> OnSql(e)
    [] e.ev = "order"      -> OnOrder(e)
    [] e.ev = "order_done" -> OnOrderDone(e)
    [] e.ev = "snapshot"   -> OnSnapshot(e)
    [] e.ev = "restore"    -> OnRestore(e)
    [] e.ev = "plan"       -> OnPlan(e)
    [] e.ev = "heal"       -> OnHeal(e)
    [] e.ev \in {"panic", "hang"} -> OnPanic(e)
    [] OTHER               -> [g2 |-> g, v |-> {}]

Init == l = 1 /\ g = G0 /\ viol = {}

(* C13, on every result event of a read-only client: the store counted no mutating request of that client during the *)
(* step (the count includes requests that are not logged, such as node objects)                                      *)
RoMutates(e) ==
  IF Has(e, "c") /\ Has(e, "dm") /\ e.ev # "s3" /\ Get(g.cmode, e.c, "rw") \in {"ro", "hist"} /\ e.dm > 0
  THEN V("C13", "C13_NoMutation", e, [event |-> e.ev, mutating_requests |-> e.dm]) ELSE {}

Next == /\ l <= Len(Trace)
        /\ LET h == Handle(Trace[l]) IN
           /\ g' = h.g2
           /\ viol' = viol \cup h.v \cup RoMutates(Trace[l])
        /\ l' = l + 1

Spec == Init /\ [][Next]_vars

(* printed once, at the end of the trace *)
Report == (l = Len(Trace) + 1) => PrintT(<<"MONITOR", ToJson([events |-> Len(Trace), violations |-> viol])>>)

(* acceptance: every event was consumed *)
TraceAccepted == TLCGet("stats").diameter - 1 = Len(Trace)
=============================================================================
