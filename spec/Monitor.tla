------------------------------ MODULE Monitor ------------------------------
(***************************************************************************)
(* Trace validation ("monitor mode") of recorded executions of the real    *)
(* s3db code against the specification's vocabulary.                       *)
(*                                                                         *)
(* The harness executes scenarios on SQLite + the s3db extension + kv on a *)
(* fake object store and logs one NDJSON event per API call and per        *)
(* storage request.  This module replays the events deterministically      *)
(* through the ghost state of S3db.tla (versions, facts, client views) and *)
(* evaluates the property predicates after every event.  The actions are   *)
(* as permissive as the properties: they accept any request order, naming  *)
(* and timing; only the property predicates can fail.  A failed predicate  *)
(* is recorded in `viol` (scenario, property predicate, event, detail) and *)
(* the replay continues, so that one TLC run validates thousands of        *)
(* scenarios (separated by `reset` events) and reports every violation.    *)
(***************************************************************************)
EXTENDS Integers, FiniteSets, Sequences, TLC, Json

CONSTANTS TraceFile,   \* NDJSON file to validate
          ColSeq,      \* the non-key columns in the order the harness lists them
          Props        \* ids of the properties whose predicates are evaluated

Cols == {ColSeq[i] : i \in DOMAIN ColSeq}
ColIdx(c) == CHOOSE j \in DOMAIN ColSeq : ColSeq[j] = c
R == INSTANCE Rows

Trace == ndJsonDeserialize(TraceFile)

VARIABLES l, g, viol
vars == <<l, g, viol>>

Range(s) == {s[i] : i \in DOMAIN s}
Has(r, f) == f \in DOMAIN r

(* ---------- ghost state ---------- *)
G0 == [ sc      |-> "none",
        feats   |-> {},
        vfacts  |-> <<>>,      \* version token -> set of statements (facts)
        vpar    |-> <<>>,      \* version token -> set of parent tokens
        vcre    |-> <<>>,      \* version token -> creation time token
        vby     |-> <<>>,      \* version token -> client that PUT it
        cur     |-> {},        \* bucket: tokens under root/current
        mrg     |-> {},        \* bucket: tokens under root/merged
        cfacts  |-> <<>>,      \* client -> facts in its view
        cpend   |-> <<>>,      \* client -> accepted but uncommitted facts
        csnap   |-> <<>>,      \* client -> facts at BEGIN
        ctx     |-> <<>>,      \* client -> in explicit transaction
        cmode   |-> <<>>,      \* client -> "rw" | "ro" | "hist"
        fresh   |-> <<>>,      \* client -> versions PUT by it during the current API call
        obs     |-> {},        \* observations <<facts, rows>> of completed opens (C01)
        lastrows|-> <<>>,      \* client -> last rows it showed
        quiet   |-> 0          \* number of consecutive read-write opens that wrote nothing
      ]

Get(f, k, d) == IF k \in DOMAIN f THEN f[k] ELSE d
Put(f, k, v) == [x \in DOMAIN f \cup {k} |-> IF x = k THEN v ELSE f[x]]

(* ---------- decoding events ---------- *)
RowSet(rows) == { <<rows[i][1], [c \in Cols |-> rows[i][1 + ColIdx(c)]]>> : i \in DOMAIN rows }

StmtOf(e) ==
  [kind |-> e.kind, key |-> e.key, wt |-> e.wt, n |-> e.seq,
   cols |-> IF e.kind = "ins"
            THEN [c \in Cols |-> IF e.vals[c] = "NONE" THEN R!NullV ELSE e.vals[c]]
            ELSE [c \in {x \in Cols : e.vals[x] # "NONE"} |-> e.vals[c]]]

Accepted(e) == e.outcome = "ok" /\ e.affected >= 1 /\ e.kind \in {"ins", "upd", "del"}

FactsOfVersions(V) == UNION {Get(g.vfacts, v, {}) : v \in V}

(* ---------- violations ---------- *)
V(prop, pred, e, detail) ==
  IF prop \in Props THEN {[sc |-> g.sc, prop |-> prop, pred |-> pred, seq |-> e.seq, detail |-> detail]} ELSE {}

(* ---------- event handlers: each yields the next ghost state and the set of new violations ---------- *)

OnReset(e) ==
  [g2 |-> [G0 EXCEPT !.sc = e.sc, !.feats = Range(e.features)], v |-> {}]

(* a storage request *)
OnS3(e) ==
  LET c == e.c
      g1 == IF e.op = "PUT" /\ e.res = "ok" /\ e.cls = "cur"
            THEN [g EXCEPT !.cur = @ \cup {e.name},
                           !.vpar = Put(@, e.name, Range(e.parents)),
                           !.vcre = Put(@, e.name, e.created),
                           !.vby  = Put(@, e.name, c),
                           !.fresh = Put(@, c, Get(@, c, <<>>) \o <<e.name>>)]
            ELSE IF e.op = "PUT" /\ e.res = "ok" /\ e.cls = "mrg"
            THEN [g EXCEPT !.mrg = @ \cup {e.name}]
            ELSE IF e.op = "DELETE" /\ e.res = "ok" /\ e.cls = "cur"
            THEN [g EXCEPT !.cur = @ \ {e.name}]
            ELSE IF e.op = "DELETE" /\ e.res = "ok" /\ e.cls = "mrg"
            THEN [g EXCEPT !.mrg = @ \ {e.name}]
            ELSE g
      ro == Get(g.cmode, c, "rw") \in {"ro", "hist"}
  IN [g2 |-> g1,
      v  |-> IF ro /\ e.op \in {"PUT", "DELETE"}
             THEN V("C13", "C13_NoMutation", e, <<e.op, e.cls, e.name>>) ELSE {}]

(* the versions client c PUT during the API call that just returned get    *)
(* their facts: parents' facts plus what c had accepted and not committed  *)
Finalize(gg, c, pend) ==
  LET fr == Get(gg.fresh, c, <<>>)
      RECURSIVE Go(_, _)
      Go(vf, i) == IF i > Len(fr) THEN vf
                   ELSE Go(Put(vf, fr[i], (UNION {Get(vf, p, {}) : p \in Get(gg.vpar, fr[i], {})}) \cup pend), i + 1)
  IN [gg EXCEPT !.vfacts = Go(gg.vfacts, 1),
                !.fresh = Put(@, c, <<>>),
                !.cpend = Put(@, c, IF Len(fr) > 0 THEN {} ELSE pend)]

CheckRows(e, c, facts, rows, where) ==
  LET ideal == R!IdealTable(facts) IN
  (IF rows # ideal
   THEN V("C02", "C02_RowsAreIdeal", e, [where |-> where, observed |-> rows, ideal |-> ideal, facts |-> facts])
   ELSE {})

OnOpenStart(e) ==
  [g2 |-> [g EXCEPT !.fresh = Put(@, e.c, <<>>),
                    !.cmode = IF e.mode = "refresh" THEN @ ELSE Put(@, e.c, e.mode)],
   v |-> {}]

OnOpenDone(e) ==
  LET c == e.c IN
  IF e.outcome # "ok"
  THEN [g2 |-> g, v |-> {}]
  ELSE
  LET g1 == Finalize(g, c, {})
      vers == Range(e.version)
      facts == UNION {Get(g1.vfacts, v, {}) : v \in vers}
      rows == RowSet(e.rows)
      wrote == e.dm > 0
      g2 == [g1 EXCEPT !.cfacts = Put(@, c, facts),
                       !.cpend = Put(@, c, {}),
                       !.ctx = Put(@, c, FALSE),
                       !.obs = @ \cup {<<facts, rows>>},
                       !.lastrows = Put(@, c, rows),
                       !.quiet = IF e.mode = "rw" THEN (IF wrote THEN 0 ELSE @ + 1) ELSE @]
      v1 == IF e.rows_outcome = "ok" THEN CheckRows(e, c, facts, rows, "open") ELSE
            V("C02", "C02_ReadFails", e, e.rows_outcome)
      v2 == IF \E o \in g.obs : o[1] = facts /\ o[2] # rows
            THEN V("C01", "C01_SameFactsSameRows", e,
                   [observed |-> rows, other |-> (CHOOSE o \in g.obs : o[1] = facts /\ o[2] # rows)[2], facts |-> facts])
            ELSE {}
      \* fixpoint: the scenario marks the read-write opens of a quiescent bucket with fix = n
      \* (n-th consecutive one); from the third on, an open must not write.
      v3 == IF Has(e, "fix") /\ e.fix >= 3 /\ wrote
            THEN V("C01", "C01_Fixpoint", e, [fix |-> e.fix, mutations |-> e.dm]) ELSE {}
  IN [g2 |-> g2, v |-> v1 \cup v2 \cup v3]

OnStmt(e) ==
  LET c == e.c
      acc == Accepted(e)
      f == StmtOf(e)
      pend == Get(g.cpend, c, {}) \cup (IF acc THEN {f} ELSE {})
      g0 == [g EXCEPT !.cfacts = Put(@, c, Get(@, c, {}) \cup (IF acc THEN {f} ELSE {}))]
      g1 == IF e.intx = 1 THEN [g0 EXCEPT !.cpend = Put(@, c, pend)] ELSE Finalize(g0, c, pend)
      ro == Get(g.cmode, c, "rw") \in {"ro", "hist"}
      v1 == IF ro /\ e.outcome = "ok" /\ e.affected >= 1
            THEN V("C13", "C13_WriteFails", e, [kind |-> e.kind, outcome |-> e.outcome]) ELSE {}
  IN [g2 |-> g1, v |-> v1]

OnRows(e) ==
  LET c == e.c
      rows == RowSet(e.rows)
      g1 == [g EXCEPT !.lastrows = Put(@, c, rows)]
  IN IF e.outcome # "ok" THEN [g2 |-> g, v |-> V("C02", "C02_ReadFails", e, e.outcome)]
     ELSE [g2 |-> g1, v |-> CheckRows(e, c, Get(g.cfacts, c, {}), rows, "rows")]

OnBegin(e) ==
  LET c == e.c IN
  [g2 |-> IF e.outcome = "ok" THEN [g EXCEPT !.ctx = Put(@, c, TRUE), !.csnap = Put(@, c, Get(g.cfacts, c, {}))] ELSE g,
   v |-> {}]

OnCommit(e) ==
  LET c == e.c
      g1 == IF e.outcome = "ok" THEN Finalize([g EXCEPT !.ctx = Put(@, c, FALSE)], c, Get(g.cpend, c, {})) ELSE g
  IN [g2 |-> g1, v |-> {}]

OnRollback(e) ==
  LET c == e.c
      g1 == IF e.outcome = "ok"
            THEN [g EXCEPT !.ctx = Put(@, c, FALSE), !.cfacts = Put(@, c, Get(g.csnap, c, {})), !.cpend = Put(@, c, {})]
            ELSE g
  IN [g2 |-> g1, v |-> {}]

Handle(e) ==
  CASE e.ev = "reset"      -> OnReset(e)
    [] e.ev = "s3"         -> OnS3(e)
    [] e.ev = "open_start" -> OnOpenStart(e)
    [] e.ev = "open_done"  -> OnOpenDone(e)
    [] e.ev = "stmt"       -> OnStmt(e)
    [] e.ev = "rows"       -> OnRows(e)
    [] e.ev = "begin"      -> OnBegin(e)
    [] e.ev = "commit"     -> OnCommit(e)
    [] e.ev = "rollback"   -> OnRollback(e)
    [] OTHER               -> [g2 |-> g, v |-> {}]

Init == l = 1 /\ g = G0 /\ viol = {}

Next == /\ l <= Len(Trace)
        /\ LET h == Handle(Trace[l]) IN
           /\ g' = h.g2
           /\ viol' = viol \cup h.v
        /\ l' = l + 1

Spec == Init /\ [][Next]_vars

(* printed once, at the end of the trace *)
Report == (l = Len(Trace) + 1) => PrintT(<<"MONITOR", ToJson([events |-> Len(Trace), violations |-> viol])>>)

(* acceptance: every event was consumed *)
TraceAccepted == TLCGet("stats").diameter - 1 = Len(Trace)
=============================================================================
