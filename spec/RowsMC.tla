------------------------------ MODULE RowsMC ------------------------------
(***************************************************************************)
(* The row CRDT under free gossip: replicas execute statements on one key  *)
(* locally and absorb each other's current entry in any order and any      *)
(* number of times.  Free gossip subsumes every merge order, every         *)
(* grouping into intermediate merged versions and every re-merge of an     *)
(* ancestor.  Ghost state: the set of accepted statements each replica has *)
(* absorbed.  Mode selects the merge rule:                                 *)
(*   "asbuilt" - transcription of the code as it is;                       *)
(*   "fixed"   - transcription of the code with repairs R1-R3 (Rows.tla);  *)
(*   "join"    - the semilattice of the README.                            *)
(***************************************************************************)
EXTENDS Integers, FiniteSets, Sequences, TLC, Json

CONSTANTS Reps, MaxTime, Cols, MaxStmts, Mode, Partial

R == INSTANCE Rows

Times == 1..MaxTime
ColSets == IF Partial THEN (SUBSET Cols) \ {{}} ELSE {Cols}

VARIABLES ent, facts, used, hist
vars == <<ent, facts, used, hist>>

Init == /\ ent = [r \in Reps |-> R!Absent]
        /\ facts = [r \in Reps |-> {}]
        /\ used = {}
        /\ hist = <<>>

MkStmt(kind, cs, t) ==
  [kind |-> kind, key |-> "k", wt |-> t, n |-> 0,
   cols |-> IF kind = "del" THEN [c \in {} |-> "x"]
            ELSE [c \in (IF kind = "ins" THEN Cols ELSE cs) |-> IF c \in cs THEN c \o ToString(t) ELSE R!NullV]]

Exec(r) ==
  \E kind \in {"ins", "upd", "del"}, cs \in ColSets, t \in Times \ used :
    /\ Cardinality(used) < MaxStmts
    /\ kind = "del" => cs = Cols
    /\ LET s == MkStmt(kind, cs, t)
           res == R!ApplyLocal(Mode, ent[r], s)
       IN /\ res.out = "ok"
          /\ ent' = [ent EXCEPT ![r] = res.e]
          /\ facts' = [facts EXCEPT ![r] = @ \cup {s}]
          /\ hist' = Append(hist, [op |-> "exec", r |-> r, kind |-> kind, cs |-> cs, wt |-> t])
    /\ used' = used \cup {t}

Merge(r, q) ==
  /\ r # q /\ facts[q] # {} /\ ~(facts[q] \subseteq facts[r] /\ ent[q] = ent[r])
  /\ ent' = [ent EXCEPT ![r] = R!MergeEntry(Mode, ent[r], ent[q])]
  /\ facts' = [facts EXCEPT ![r] = @ \cup facts[q]]
  /\ hist' = Append(hist, [op |-> "merge", r |-> r, q |-> q])
  /\ UNCHANGED used

Next == \E r \in Reps : Exec(r) \/ \E q \in Reps : Merge(r, q)
Spec == Init /\ [][Next]_vars

View == <<ent, facts, used>>

Vis(e) == IF R!IsVisible(e) THEN {<<"k", R!VisibleRow(e)>>} ELSE {}

C02_RowsAreIdeal == \A r \in Reps : Vis(ent[r]) = R!IdealTable(facts[r])
C01_SameFactsSameRows == \A r, q \in Reps : facts[r] = facts[q] => Vis(ent[r]) = Vis(ent[q])
(* stronger, register-level convergence (needed for C01 to survive further merging) *)
C01_SameFactsSameRegisters ==
  \A r, q \in Reps : (facts[r] = facts[q] /\ ~ent[r].abs /\ ~ent[q].abs) =>
       (ent[r].live = ent[q].live /\ ent[r].st = ent[q].st /\ ent[r].ct = ent[q].ct /\ ent[r].cv = ent[q].cv)
=============================================================================
